// Package c07: the range-hash diff (app/ldiff) must report exactly the set
// difference of the two indexes — in process and through the headsync /
// key-value wire adapters — and terminate.
//
// Oracle: plain set difference of the two element maps the harness filled the
// indexes from. Nothing about the index internals is assumed; the position of
// an id in the hash space (xxhash64, the wire contract of the range protocol)
// is used only by generators (skewed sets) and to name the failing exchange in
// violation keys.
package c07

import (
	"context"
	"errors"
	"fmt"
	"math"
	"math/rand"
	"runtime/debug"
	"sort"
	"strings"
	"sync"
	"time"

	"github.com/anyproto/any-sync/app/ldiff"
	"github.com/anyproto/any-sync/app/logger"
	"github.com/anyproto/any-sync/commonspace/headsync"
	"github.com/anyproto/any-sync/commonspace/object/keyvalue"
	"github.com/anyproto/any-sync/commonspace/spacesyncproto"

	"verifharness/engines/ldiffkit"
	"verifharness/lib"
)

type Prop struct{}

func (Prop) ID() string    { return "C07" }
func (Prop) Level() string { return "exploration" }
func (Prop) Rule() string {
	return "exhaustive: universes of 4 (quick) / 6 (thorough) ids placed at chosen hash positions (clustered / range-edge / spread), every pair of (absent, head0, head1) assignments x divide factors {2,3,4,16} x thresholds {1,2,3,16} x {Diff, CompareDiff} in process, every 8th also through the headsync and key-value wire adapters; " +
		"random: pairs of sets (log-uniform size, up to 50 000) derived from a common base with random new/changed/removed fractions, random parameters incl. (32,256), all 7 variant x path combinations; " +
		"skewed: the same with 1-4 clusters of ids constructed to share 8-51 leading hash bits (cluster size around and above the threshold) and, in a third of the cases, a cluster on the first/last hash values of a canonical range of depth 1-3; degenerate (outside the stated assumption, own keys): ids constructed to have identical or adjacent xxhash64 values, each case in a child process; mixed-params: random / skewed / churn pairs whose responder index uses a different divide factor and/or threshold than the requester (ranges the responder has not in its own division are answered by scanning), all paths; wire: medium random/skewed pairs through DiffManager.TryDiff <-> DiffManager.HandleRangeRequest, headsync.NewRemoteDiff <-> HandleRangeRequest and keyvalue.NewRemoteDiff <-> HandleRangeRequest with every request and response marshalled; " +
		"a case is non-trivial when the two sets differ; distinct = (workload, universe/local/remote assignment) resp. (workload, case index, parameters)."
}
func (Prop) Assumptions() []string {
	return []string{
		"both sides use the same divide factor and threshold (as every caller in the repository does) in every workload except mixed-params, where the responder's index is built with different ones (violations found only there carry the key prefix mixed-params:)",
		"ids and heads are non-empty strings; ids are valid UTF-8 (they travel in proto3 string fields)",
		"both indexes are static during a diff",
		"any two distinct ids are at least 2^12 apart in the 64-bit hash space (no engineered xxhash64 near-collisions; see FINDINGS.md, observation O-C07-a)",
		"indexes are filled with Set of new ids only (histories with updates/removals are C08)",
	}
}

type params struct{ df, thr int }

var exhDF = []int{2, 3, 4, 16}
var exhThr = []int{1, 2, 3, 16}

func exhParams() []params {
	var out []params
	for _, d := range exhDF {
		for _, t := range exhThr {
			out = append(out, params{d, t})
		}
	}
	return out
}

var rndDF = []int{2, 2, 3, 4, 5, 7, 8, 16, 32, 64}
var rndThr = []int{1, 1, 2, 3, 4, 8, 16, 64, 256}

func randomParams(rng *rand.Rand) params {
	if rng.Intn(8) == 0 {
		return params{32, 256} // the parameters every caller in the repository uses
	}
	return params{rndDF[rng.Intn(len(rndDF))], rndThr[rng.Intn(len(rndThr))]}
}

// ---------------------------------------------------------------- universes

type universe struct {
	name string
	ids  []string
}

var (
	uniOnce sync.Once
	unis    []universe
)

func universes() []universe {
	uniOnce.Do(func() {
		mk := func(name string, hs []uint64) universe {
			u := universe{name: name}
			for i, h := range hs {
				id, ok := ldiffkit.IdWithHash(h, uint64(1000+i))
				if !ok {
					panic("harness: cannot construct id for hash")
				}
				u.ids = append(u.ids, id)
			}
			return u
		}
		const base = uint64(0x6a3c_91e2_57d0_4b88)
		unis = []universe{
			// clustered: 0/1 share 30 bits, 2 shares 12 bits with 0, 3 shares 3 bits, 4 shares 45 bits with 0, 5 other half
			mk("clustered", []uint64{base, base ^ (1 << 33), base ^ (1 << 51), base ^ (1 << 60), base ^ (1 << 18), base ^ (1 << 63)}),
			// edges: extreme values and ids right next to split points of df 2 / 3
			mk("edges", []uint64{0, ^uint64(0), 1<<63 - 1<<20, 0x5555555555555555, 1<<63 + 1<<20, 0x5555555555554555}),
			// spread: different top-level buckets for every divide factor used
			mk("spread", []uint64{0x1123456789abcdef, 0x5123456789abcdef, 0x9123456789abcdef, 0xd123456789abcdef, 0x3123456789abcdef, 0xb123456789abcdef}),
		}
	})
	return unis
}

func uniSize(tier string) int {
	if tier == "thorough" {
		return 6
	}
	return 4
}

func uniCount(tier string) int {
	if tier == "thorough" {
		return 3
	}
	return 2
}

func pow3(n int) int {
	r := 1
	for i := 0; i < n; i++ {
		r *= 3
	}
	return r
}

var heads = [3]string{"", "head-0", "head-1"}

func assignment(u universe, n, code int) map[string]string {
	m := map[string]string{}
	for i := 0; i < n; i++ {
		d := code % 3
		code /= 3
		if d != 0 {
			m[u.ids[i]] = heads[d]
		}
	}
	return m
}

// ---------------------------------------------------------------- plan

func (Prop) Plan(tier string) []lib.Workload {
	n := uniSize(tier)
	exh := uniCount(tier) * pow3(n)
	if tier == "thorough" {
		return []lib.Workload{
			{Name: "exhaustive", Cases: exh, Exhaustive: true, MinNontrivial: 1000, BatchTimeout: 120 * time.Minute},
			{Name: "random", Cases: 6000, MinNontrivial: 3000, BatchTimeout: 120 * time.Minute},
			{Name: "skewed", Cases: 6000, MinNontrivial: 3000, BatchTimeout: 120 * time.Minute},
			{Name: "wire", Cases: 4000, MinNontrivial: 2000, BatchTimeout: 120 * time.Minute},
			{Name: "churn", Cases: 8000, MinNontrivial: 4000, BatchTimeout: 120 * time.Minute},
			{Name: "mixed-params", Cases: 6000, MinNontrivial: 3000, BatchTimeout: 120 * time.Minute},
			{Name: "large", Cases: 300, MinNontrivial: 150, BatchTimeout: 120 * time.Minute},
			{Name: "degenerate", Cases: len(degCases(tier)), MinNontrivial: 10, Batches: 8, BatchTimeout: 120 * time.Minute},
		}
	}
	return []lib.Workload{
		{Name: "exhaustive", Cases: exh, Exhaustive: true, MinNontrivial: 1000},
		{Name: "random", Cases: 500, MinNontrivial: 250},
		{Name: "skewed", Cases: 500, MinNontrivial: 250},
		{Name: "wire", Cases: 400, MinNontrivial: 200},
		{Name: "churn", Cases: 600, MinNontrivial: 300},
		{Name: "mixed-params", Cases: 500, MinNontrivial: 250},
		{Name: "large", Cases: 6, MinNontrivial: 3},
		{Name: "degenerate", Cases: len(degCases(tier)), MinNontrivial: 10, Batches: 6},
	}
}

// ---------------------------------------------------------------- oracle

type expect struct {
	newIds, ours, theirs, removed []string
}

// setDifference is the whole oracle.
func setDifference(local, remote map[string]string) expect {
	var e expect
	for id, rh := range remote {
		lh, ok := local[id]
		if !ok {
			e.newIds = append(e.newIds, id)
			continue
		}
		if lh == rh {
			continue
		}
		// "split by which head is greater": Head is a string; greater = string order
		if rh > lh {
			e.theirs = append(e.theirs, id)
		} else {
			e.ours = append(e.ours, id)
		}
	}
	for id := range local {
		if _, ok := remote[id]; !ok {
			e.removed = append(e.removed, id)
		}
	}
	return e
}

func (e expect) empty() bool {
	return len(e.newIds)+len(e.ours)+len(e.theirs)+len(e.removed) == 0
}

// ---------------------------------------------------------------- running one combination

const (
	varDiff = iota
	varCompare
)

const (
	pathInproc = iota
	pathHS     // headsync.NewRemoteDiff <-> headsync.HandleRangeRequest
	pathDM     // DiffManager.TryDiff <-> DiffManager.HandleRangeRequest
	pathKV     // keyvalue.NewRemoteDiff <-> keyvalue.HandleRangeRequest
)

var varNames = []string{"Diff", "CompareDiff"}
var pathNames = []string{"inproc", "headsync-wire", "diffmanager-wire", "keyvalue-wire"}

type combo struct{ variant, path int }

var allCombos = []combo{{varDiff, pathInproc}, {varCompare, pathInproc}, {varDiff, pathHS}, {varCompare, pathHS}, {varDiff, pathDM}, {varDiff, pathKV}, {varCompare, pathKV}}
var inprocCombos = allCombos[:2]
var lightWireCombos = []combo{{varDiff, pathHS}, {varCompare, pathKV}}

type side struct {
	m   map[string]string
	idx ldiff.Diff
}

type outcome struct {
	newIds, ours, theirs, removed []string
	err                           error
	rec                           *ldiffkit.Recorder
	wireCalls, wireMismatch       int
}

var bg = context.Background()
var dmLog = logger.NewNamed("verif.c07")

func runCombo(local, remote *side, pr params, cb combo, keep bool) outcome {
	// step watchdog on the Ranges round trips: 64*df*(|A|+|B|+1) as designed, capped so that a hit costs
	// seconds, not hours (a correct diff needs at most two round trips per subdivision level, i.e. < 200)
	limit := 64 * pr.df * (len(local.m) + len(remote.m) + 1)
	if limit > 100000 {
		limit = 100000
	}
	var inner ldiff.Remote
	var hs *ldiffkit.HSClient
	var kv *ldiffkit.KVClient
	switch cb.path {
	case pathInproc:
		inner = remote.idx
	case pathHS:
		hs = ldiffkit.NewHSClient(remote.idx)
		inner = headsync.NewRemoteDiff("space", hs)
	case pathDM:
		rdm := headsync.NewDiffManager(remote.idx, nil, nil, dmLog, bg, nil)
		hs = &ldiffkit.HSClient{Serve: func(ctx context.Context, req *spacesyncproto.HeadSyncRequest) (*spacesyncproto.HeadSyncResponse, error) {
			return rdm.HandleRangeRequest(ctx, req)
		}}
		inner = headsync.NewRemoteDiff("space", hs)
	case pathKV:
		kv = &ldiffkit.KVClient{Remote: remote.idx}
		inner = keyvalue.NewRemoteDiff("space", kv)
	}
	rec := ldiffkit.NewRecorder(inner, limit, keep)
	var o outcome
	o.rec = rec
	switch {
	case cb.path == pathDM:
		ldm := headsync.NewDiffManager(local.idx, nil, nil, dmLog, bg, nil)
		o.newIds, o.ours, o.removed, o.err = ldm.TryDiff(bg, recRemoteDiff{rec, inner.(headsync.RemoteDiff)})
	case cb.variant == varDiff:
		o.newIds, o.ours, o.removed, o.err = local.idx.Diff(bg, rec)
	default:
		o.newIds, o.ours, o.theirs, o.removed, o.err = local.idx.(ldiff.CompareDiff).CompareDiff(bg, rec)
	}
	if hs != nil {
		o.wireCalls, o.wireMismatch = hs.Calls, hs.MismatchedLen
	}
	if kv != nil {
		o.wireCalls, o.wireMismatch = kv.Calls, kv.MismatchedLen
	}
	return o
}

// recRemoteDiff lets the recorder sit between DiffManager.TryDiff and the real RemoteDiff.
type recRemoteDiff struct {
	*ldiffkit.Recorder
	rd headsync.RemoteDiff
}

func (r recRemoteDiff) DiffTypeCheck(ctx context.Context, d ldiff.Diff) (bool, error) {
	return r.rd.DiffTypeCheck(ctx, d)
}

type problem struct {
	kind string // missed-new, spurious-removed, duplicate-changed, ...
	id   string
}

func compareLists(kindName string, got, want []string, out *[]problem) {
	w := make(map[string]int, len(want))
	for _, id := range want {
		w[id] = 1
	}
	g := make(map[string]int, len(got))
	for _, id := range got {
		g[id]++
	}
	for _, id := range want {
		if g[id] == 0 {
			*out = append(*out, problem{"missed-" + kindName, id})
		}
	}
	for id, n := range g {
		if w[id] == 0 {
			*out = append(*out, problem{"spurious-" + kindName, id})
		} else if n > 1 {
			*out = append(*out, problem{"duplicate-" + kindName, id})
		}
	}
}

func judge(o outcome, e expect, cb combo) []problem {
	var ps []problem
	compareLists("new", o.newIds, e.newIds, &ps)
	compareLists("removed", o.removed, e.removed, &ps)
	if cb.variant == varDiff {
		want := append(append([]string(nil), e.ours...), e.theirs...)
		compareLists("changed", o.ours, want, &ps)
	} else {
		compareLists("changed-ours-greater", o.ours, e.ours, &ps)
		compareLists("changed-theirs-greater", o.theirs, e.theirs, &ps)
	}
	sort.Slice(ps, func(i, j int) bool {
		if ps[i].kind != ps[j].kind {
			return ps[i].kind < ps[j].kind
		}
		return ps[i].id < ps[j].id
	})
	return ps
}

// pairCase is one pair of indexes with its description.
type pairCase struct {
	class  string // workload/class description for evidence
	desc   any    // witness description (small) or nil => element maps are dumped when small
	local  *side
	remote *side
	pr     params
	// remotePr: the responder's parameters when they differ from the requester's (workload mixed-params)
	remotePr *params
}

type reporter struct {
	c        *lib.Case
	reported map[string]bool
	prefix   string
}

func (r *reporter) violation(key, what string, detail any) {
	key = r.prefix + key
	if r.reported[key] {
		r.c.Count("violations_suppressed_same_key_same_case", 1)
		return
	}
	r.reported[key] = true
	r.c.Violation(key, what, detail)
}

func witness(p *pairCase) map[string]any {
	w := map[string]any{"class": p.class, "divide_factor": p.pr.df, "threshold": p.pr.thr,
		"local_size": len(p.local.m), "remote_size": len(p.remote.m)}
	if p.desc != nil {
		w["generator"] = p.desc
	}
	if p.remotePr != nil {
		w["responder_divide_factor"], w["responder_threshold"] = p.remotePr.df, p.remotePr.thr
	}
	if len(p.local.m)+len(p.remote.m) <= 24 {
		w["local"] = withHash(p.local.m)
		w["remote"] = withHash(p.remote.m)
	}
	return w
}

func withHash(m map[string]string) []string {
	var out []string
	for _, id := range ldiffkit.SortedIds(m) {
		out = append(out, fmt.Sprintf("%s=%s (xxhash %016x)", id, m[id], ldiffkit.HashOf(id)))
	}
	return out
}

// checkPair runs the given combinations on one pair and reports violations
// with stable keys. It returns the number of combos judged.
func (r *reporter) checkPair(p *pairCase, combos []combo) {
	c := r.c
	e := setDifference(p.local.m, p.remote.m)
	baseKeys := map[string]bool{}
	for _, cb := range combos {
		o := runCombo(p.local, p.remote, p.pr, cb, false)
		c.Count("diffs."+varNames[cb.variant]+"."+pathNames[cb.path], 1)
		c.Count("ranges_round_trips", int64(o.rec.Rounds))
		if o.rec.Rounds > 2 {
			c.Count("diffs_with_more_than_2_round_trips", 1)
		}
		if o.wireCalls > 0 {
			c.Count("wire_calls", int64(o.wireCalls))
		}
		// a key seen in process keeps its name on the wire paths; a problem that shows only on a
		// wire path is named after the path, so that it cannot hide behind a known in-process finding
		keyOf := func(k string) string {
			if cb.path == pathInproc {
				baseKeys[k] = true
				return k
			}
			if baseKeys[k] {
				return k
			}
			return "only-" + pathNames[cb.path] + ":" + k
		}
		if o.wireMismatch > 0 {
			r.violation(keyOf("wire:result-count-differs-from-range-count:"+pathNames[cb.path]), "a wire response carried a different number of results than ranges were requested",
				map[string]any{"pair": witness(p), "variant": varNames[cb.variant], "path": pathNames[cb.path]})
		}
		if o.err != nil {
			if errors.Is(o.err, ldiffkit.ErrWatchdog) {
				if o.rec.Repeat {
					r.violation(keyOf("diff:no-termination:request-list-repeats"), "the diff keeps sending an identical list of ranges (static indexes): it does not terminate",
						map[string]any{"pair": witness(p), "variant": varNames[cb.variant], "path": pathNames[cb.path], "round_trips": o.rec.Rounds})
				} else {
					c.Inconclusive(fmt.Sprintf("step watchdog (%d round trips) fired without a repeated request list: %v", o.rec.Limit, witness(p)))
				}
				continue
			}
			r.violation(keyOf("diff:error:"+normErr(o.err)), "the diff returned an error on well-formed indexes",
				map[string]any{"pair": witness(p), "variant": varNames[cb.variant], "path": pathNames[cb.path], "error": o.err.Error()})
			continue
		}
		ps := judge(o, e, cb)
		if len(ps) == 0 {
			c.Count("diffs_equal_to_set_difference", 1)
			continue
		}
		c.Count("diffs_not_equal_to_set_difference", 1)
		// replay with the exchange recorded to name the failing branch
		o2 := runCombo(p.local, p.remote, p.pr, cb, true)
		seenKind := map[string]bool{}
		for _, pb := range ps {
			sig := signature(p.local.idx, o2.rec, pb.id)
			k := "diff:" + pb.kind + ":" + sig
			if seenKind[k] {
				continue
			}
			seenKind[k] = true
			exp := map[string]any{"new": sorted(e.newIds), "removed": sorted(e.removed)}
			got := map[string]any{"new": sorted(o.newIds), "removed": sorted(o.removed)}
			if cb.variant == varDiff {
				exp["changed"] = sorted(append(append([]string(nil), e.ours...), e.theirs...))
				got["changed"] = sorted(o.ours)
			} else {
				exp["changed_ours_greater"], exp["changed_theirs_greater"] = sorted(e.ours), sorted(e.theirs)
				got["changed_ours_greater"], got["changed_theirs_greater"] = sorted(o.ours), sorted(o.theirs)
			}
			r.violation(keyOf(k), "diff result differs from the set difference of the two indexes: "+pb.kind+" (id "+pb.id+")",
				map[string]any{"pair": witness(p), "variant": varNames[cb.variant], "path": pathNames[cb.path], "id": pb.id,
					"id_xxhash": fmt.Sprintf("%016x", ldiffkit.HashOf(pb.id)), "problems": len(ps),
					"expected": trimLists(exp), "reported": trimLists(got), "exchange": exchange(o2.rec, p.local.idx, pb.id)})
		}
	}
}

func sorted(s []string) []string {
	out := append([]string(nil), s...)
	sort.Strings(out)
	return out
}

func trimLists(m map[string]any) map[string]any {
	for k, v := range m {
		if l, ok := v.([]string); ok && len(l) > 12 {
			m[k] = append(append([]string(nil), l[:12]...), fmt.Sprintf("… (%d ids)", len(l)))
		}
	}
	return m
}

func normErr(err error) string {
	s := err.Error()
	if len(s) > 60 {
		s = s[:60]
	}
	return strings.Map(func(r rune) rune {
		if r >= '0' && r <= '9' {
			return 'N'
		}
		return r
	}, s)
}

// signature names the last exchanged range that covers the id: what the local
// index answers for it and what the remote answered (API-visible shapes only).
func signature(local ldiff.Diff, rec *ldiffkit.Recorder, id string) string {
	rg, remoteAns, ok := rec.LastRangeFor(ldiffkit.HashOf(id))
	if !ok {
		return "range-never-requested"
	}
	localAns, err := local.Ranges(bg, []ldiff.Range{rg}, nil)
	if err != nil || len(localAns) != 1 {
		return "local-unanswered"
	}
	sig := "local-" + ldiffkit.Classify(localAns[0]) + "-vs-remote-" + ldiffkit.Classify(remoteAns)
	if len(localAns[0].Hash) > 0 && string(localAns[0].Hash) == string(remoteAns.Hash) {
		sig += "-equal-hash"
	}
	return sig
}

// exchange renders the requests that covered the id (for the witness).
func exchange(rec *ldiffkit.Recorder, local ldiff.Diff, id string) []string {
	h := ldiffkit.HashOf(id)
	var out []string
	for i, rd := range rec.Log {
		for j, rg := range rd.Ranges {
			if h < rg.From || h > rg.To || j >= len(rd.Results) {
				continue
			}
			la, _ := local.Ranges(bg, []ldiff.Range{rg}, nil)
			ls := "?"
			if len(la) == 1 {
				ls = fmt.Sprintf("%s(hash=%t,count=%d,elements=%d)", ldiffkit.Classify(la[0]), len(la[0].Hash) > 0, la[0].Count, len(la[0].Elements))
			}
			ra := rd.Results[j]
			out = append(out, fmt.Sprintf("round %d range [%016x,%016x] elements=%t: local %s, remote %s(hash=%t,count=%d,elements=%d)",
				i+1, rg.From, rg.To, rg.Elements, ls, ldiffkit.Classify(ra), len(ra.Hash) > 0, ra.Count, len(ra.Elements)))
		}
	}
	if len(out) > 12 {
		out = out[len(out)-12:]
	}
	return out
}

// ---------------------------------------------------------------- workloads

func (Prop) RunCase(c *lib.Case) {
	r := &reporter{c: c, reported: map[string]bool{}}
	switch c.Workload {
	case "exhaustive":
		runExhaustive(c, r)
	case "random":
		runGenerated(c, r, genRandom(c.Rng, sizeFor(c, 3000), "random"), allCombos)
	case "skewed":
		runGenerated(c, r, genSkewed(c.Rng, sizeFor(c, 1500)), allCombos)
	case "wire":
		var g *pairCase
		if c.Rng.Intn(2) == 0 {
			g = genRandom(c.Rng, sizeFor(c, 4000), "wire-random")
		} else {
			g = genSkewed(c.Rng, sizeFor(c, 2000))
			g.class = "wire-" + g.class
		}
		if c.Rng.Intn(2) == 0 {
			rebuild(g, params{32, 256}, c.Rng)
		}
		runGenerated(c, r, g, allCombos)
	case "churn":
		runGenerated(c, r, genChurn(c.Rng), allCombos)
	case "mixed-params":
		// "any tuning parameters": the responder's index is built with a divide factor and/or threshold
		// different from the requester's, so that the requester asks for ranges the responder has not in
		// its own division and the responder answers them by scanning (no hash, elements + count) -
		// added after seeded change C07-3 (wire adapter dropping exactly those answers) was missed
		var g *pairCase
		switch c.Rng.Intn(3) {
		case 0:
			g = genRandom(c.Rng, sizeFor(c, 3000), "random")
		case 1:
			g = genSkewed(c.Rng, sizeFor(c, 1500))
		default:
			g = genChurn(c.Rng)
		}
		g.class = "mixed-" + g.class
		rp := g.pr
		for rp == g.pr {
			switch c.Rng.Intn(3) {
			case 0:
				rp.df = rndDF[c.Rng.Intn(len(rndDF))]
			case 1:
				rp.thr = rndThr[c.Rng.Intn(len(rndThr))]
			default:
				rp = randomParams(c.Rng)
			}
		}
		g.remote.idx = build(g.remote.m, rp, c.Rng, c.Rng.Intn(4))
		g.remotePr = &rp
		r.prefix = "mixed-params:"
		c.Count(fmt.Sprintf("mixed.requester_df_%s_responder_df", cmpWord(g.pr.df, rp.df)), 1)
		c.Count(fmt.Sprintf("mixed.requester_thr_%s_responder_thr", cmpWord(g.pr.thr, rp.thr)), 1)
		runGenerated(c, r, g, allCombos)
	case "degenerate":
		runDegenerate(c, r)
	case "large":
		n := 20000 + c.Rng.Intn(30001)
		g := genRandom(c.Rng, n, "large")
		runGenerated(c, r, g, allCombos)
	}
}

func cmpWord(a, b int) string {
	switch {
	case a < b:
		return "lt"
	case a > b:
		return "gt"
	}
	return "eq"
}

func sizeFor(c *lib.Case, max int) int {
	if c.Rng.Intn(25) == 0 {
		return c.Rng.Intn(4)
	}
	// log-uniform in [0, max]
	return int(math.Exp(c.Rng.Float64()*math.Log(float64(max)+1))) - 1 + c.Rng.Intn(2)
}

func build(m map[string]string, pr params, rng *rand.Rand, style int) ldiff.Diff {
	d := ldiff.New(pr.df, pr.thr)
	els := ldiffkit.Elements(m)
	if rng != nil {
		rng.Shuffle(len(els), func(i, j int) { els[i], els[j] = els[j], els[i] })
	}
	switch style {
	case 0: // one call
		if len(els) > 0 {
			d.Set(els...)
		}
	case 1: // one by one
		for _, e := range els {
			d.Set(e)
		}
	case 2: // chunks
		for len(els) > 0 {
			n := 1 + rng.Intn(len(els))
			d.Set(els[:n]...)
			els = els[n:]
		}
	default: // grown through a history that ends in exactly these contents: heads updated, extra ids
		// inserted and removed again, absent ids removed (also twice) - "any two head indexes",
		// not only freshly filled ones (added after seeded change C07-1 was missed)
		var seqs [][]func()
		for _, e := range els {
			e := e
			var q []func()
			if rng.Intn(2) == 0 {
				old := e
				old.Head = "old-" + e.Head
				q = append(q, func() { d.Set(old) })
			}
			if rng.Intn(6) == 0 {
				q = append(q, func() { d.Set(e) }, func() { _ = d.RemoveId(e.Id) })
			}
			q = append(q, func() { d.Set(e) })
			seqs = append(seqs, q)
		}
		extras := 1 + rng.Intn(3+len(els)/2)
		if extras > 40 {
			extras = 40
		}
		for i := 0; i < extras; i++ {
			id := ldiffkit.RandomId(rng)
			if _, in := m[id]; in {
				continue
			}
			var q []func()
			if rng.Intn(3) > 0 {
				q = append(q, func() { d.Set(ldiff.Element{Id: id, Head: "x"}) })
			}
			q = append(q, func() { _ = d.RemoveId(id) })
			if rng.Intn(2) == 0 {
				q = append(q, func() { _ = d.RemoveId(id) })
			}
			seqs = append(seqs, q)
		}
		for len(seqs) > 0 {
			i := rng.Intn(len(seqs))
			seqs[i][0]()
			seqs[i] = seqs[i][1:]
			if len(seqs[i]) == 0 {
				seqs[i] = seqs[len(seqs)-1]
				seqs = seqs[:len(seqs)-1]
			}
		}
	}
	return d
}

func rebuild(g *pairCase, pr params, rng *rand.Rand) {
	g.pr = pr
	ls, rs := 0, 0
	if rng != nil {
		ls, rs = rng.Intn(4), rng.Intn(4)
	}
	g.local.idx = build(g.local.m, pr, rng, ls)
	g.remote.idx = build(g.remote.m, pr, rng, rs)
}

// guarded runs f and turns a panic inside repository code into a violation
// (same key format as lib) so that one failing parameter choice does not hide
// the rest of the enumeration. Panics in harness code are re-raised.
func (r *reporter) guarded(what any, f func()) {
	defer func() {
		if v := recover(); v != nil {
			st := debug.Stack()
			// drop the frames of this recover path: the panicking frame follows the "panic(" line
			if i := strings.Index(string(st), "\npanic("); i >= 0 {
				st = st[i+1:]
			}
			key, inRepo := lib.PanicKey(v, st)
			if !inRepo {
				panic(v)
			}
			s := string(st)
			if len(s) > 3000 {
				s = s[:3000]
			}
			r.violation(key, fmt.Sprintf("panic in repository code: %v", v), map[string]any{"input": what, "stack": s})
		}
	}()
	f()
}

func runExhaustive(c *lib.Case, r *reporter) {
	n := uniSize(c.Tier)
	per := pow3(n)
	u := universes()[c.Index/per]
	a := c.Index % per
	lm := assignment(u, n, a)
	ps := exhParams()
	locals := make([]*side, len(ps))
	for i, pr := range ps {
		r.guarded(map[string]any{"op": "New(df,thr).Set(elements...)", "divide_factor": pr.df, "threshold": pr.thr, "elements": withHash(lm)}, func() {
			locals[i] = &side{m: lm, idx: build(lm, pr, nil, 0)}
		})
	}
	for b := 0; b < per; b++ {
		rm := assignment(u, n, b)
		nontrivial := !setDifference(lm, rm).empty()
		if nontrivial {
			c.Nontrivial(fmt.Sprintf("%s/%d/%d", u.name, a, b))
		}
		for i, pr := range ps {
			c.Eval(1)
			if locals[i] == nil {
				c.Count("exhaustive.skipped_index_could_not_be_built", 1)
				continue
			}
			r.guarded(map[string]any{"op": "New(df,thr).Set(elements...) / diff", "divide_factor": pr.df, "threshold": pr.thr, "local": withHash(lm), "remote": withHash(rm)}, func() {
				p := &pairCase{class: "exhaustive/" + u.name, local: locals[i], remote: &side{m: rm, idx: build(rm, pr, nil, 0)}, pr: pr,
					desc: map[string]any{"universe": u.name, "local_assignment": a, "remote_assignment": b}}
				combos := inprocCombos
				if (a+b+i)%8 == 0 {
					combos = append(append([]combo(nil), inprocCombos...), lightWireCombos...)
				}
				r.checkPair(p, combos)
			})
		}
	}
	if a == per/2 {
		c.Sample("exhaustive-"+u.name, map[string]any{"universe_ids": u.ids, "local": lm})
	}
}

func runGenerated(c *lib.Case, r *reporter, g *pairCase, combos []combo) {
	e := setDifference(g.local.m, g.remote.m)
	if !e.empty() {
		c.Nontrivial(fmt.Sprintf("%s/%d/%d/%d", g.class, c.Index, g.pr.df, g.pr.thr))
	}
	c.Count("pairs."+g.class, 1)
	c.Count("elements_indexed", int64(len(g.local.m)+len(g.remote.m)))
	c.Count("expected.new", int64(len(e.newIds)))
	c.Count("expected.changed", int64(len(e.ours)+len(e.theirs)))
	c.Count("expected.removed", int64(len(e.removed)))
	r.checkPair(g, combos)
	c.Eval(1)
	c.Sample(g.class, map[string]any{"divide_factor": g.pr.df, "threshold": g.pr.thr, "local": len(g.local.m), "remote": len(g.remote.m),
		"new": len(e.newIds), "changed": len(e.ours) + len(e.theirs), "removed": len(e.removed), "generator": g.desc})
}

var fractions = []float64{0, 0, 0.002, 0.01, 0.1, 0.5, 1}

func pickFrac(rng *rand.Rand) float64 { return fractions[rng.Intn(len(fractions))] }

// derive makes (local, remote) from a base id list: an id is remote-only with
// probability pNew, local-only with pRemoved, on both sides with different
// heads with pChanged, otherwise identical on both sides. With few=true at most
// 1-3 ids differ.
func derive(rng *rand.Rand, ids []string) (local, remote map[string]string, desc map[string]any) {
	pNew, pRem, pChg := pickFrac(rng), pickFrac(rng), pickFrac(rng)
	if t := pNew + pRem + pChg; t > 1 {
		pNew, pRem, pChg = pNew/t, pRem/t, pChg/t
	}
	few := rng.Intn(3) == 0
	budget := len(ids)
	if few {
		budget = 1 + rng.Intn(3)
		if pNew+pRem+pChg > 0 {
			s := 0.5 / (pNew + pRem + pChg) // make the few differences likely to be used
			if s > 1 {
				pNew, pRem, pChg = pNew*s, pRem*s, pChg*s
			}
		}
	}
	local, remote = make(map[string]string, len(ids)), make(map[string]string, len(ids))
	for _, id := range ids {
		h := ldiffkit.RandomHead(rng)
		x := rng.Float64()
		if budget == 0 || x >= pNew+pRem+pChg {
			local[id], remote[id] = h, h
			continue
		}
		budget--
		switch {
		case x < pNew:
			remote[id] = h
		case x < pNew+pRem:
			local[id] = h
		default:
			h2 := ldiffkit.RandomHead(rng)
			for h2 == h {
				h2 = ldiffkit.RandomHead(rng) + "x"
			}
			local[id], remote[id] = h, h2
		}
	}
	desc = map[string]any{"base_ids": len(ids), "p_new": pNew, "p_removed": pRem, "p_changed": pChg, "few": few}
	return
}

func genRandom(rng *rand.Rand, n int, class string) *pairCase {
	seen := map[string]bool{}
	ids := make([]string, 0, n)
	for len(ids) < n {
		id := ldiffkit.RandomId(rng)
		if !seen[id] {
			seen[id] = true
			ids = append(ids, id)
		}
	}
	lm, rm, desc := derive(rng, ids)
	pr := randomParams(rng)
	style := rng.Intn(4)
	desc["build_style"] = style
	return &pairCase{class: class, desc: desc, pr: pr,
		local:  &side{m: lm, idx: build(lm, pr, rng, style)},
		remote: &side{m: rm, idx: build(rm, pr, rng, rng.Intn(4))}}
}

func genSkewed(rng *rand.Rand, n int) *pairCase {
	pr := randomParams(rng)
	nCl := 1 + rng.Intn(4)
	var ids []string
	seen := map[string]bool{}
	var clDesc []string
	salt := rng.Uint64()
	for k := 0; k < nCl; k++ {
		shared := uint(8 + rng.Intn(44)) // 8..51 leading bits
		size := 2 + rng.Intn(4*pr.thr+4)
		if size > 700 {
			size = 700
		}
		if k == 0 && rng.Intn(3) == 0 {
			size = pr.thr + rng.Intn(3) // right at the threshold
			if size < 2 {
				size = 2
			}
		}
		base := rng.Uint64()
		for _, h := range ldiffkit.ClusterHashes(rng, base, shared, size, 12) {
			salt++
			id, ok := ldiffkit.IdWithHash(h, salt)
			if ok && !seen[id] {
				seen[id] = true
				ids = append(ids, id)
			}
		}
		clDesc = append(clDesc, fmt.Sprintf("%d ids sharing %d leading bits of %016x", size, shared, base))
	}
	// optionally a cluster sitting on the edges of one canonical range (first / last hash values of it),
	// large enough to have that range divided: exercises the remainder handling of the subdivision
	if rng.Intn(3) == 0 {
		r := ldiffkit.Top
		depth := 1 + rng.Intn(3)
		h := rng.Uint64()
		for d := 0; d < depth; d++ {
			for _, ch := range ldiffkit.Split(r, pr.df) {
				if ch.Contains(h) {
					r = ch
					break
				}
			}
		}
		cnt := pr.thr + 1 + rng.Intn(3)
		if cnt > 300 {
			cnt = 300
		}
		for k := 0; k < cnt; k++ {
			hv := r.To - uint64(k/2)*4096
			if k%2 == 1 {
				hv = r.From + uint64(k/2)*4096
			}
			salt++
			if id, ok := ldiffkit.IdWithHash(hv, salt); ok && !seen[id] {
				seen[id] = true
				ids = append(ids, id)
			}
		}
		clDesc = append(clDesc, fmt.Sprintf("%d ids on the edges of the canonical range [%016x,%016x] (depth %d)", cnt, r.From, r.To, depth))
	}
	// background of unrelated ids
	bgN := n
	if rng.Intn(3) == 0 {
		bgN = rng.Intn(8)
	}
	for i := 0; i < bgN; i++ {
		id := ldiffkit.RandomId(rng)
		if !seen[id] {
			seen[id] = true
			ids = append(ids, id)
		}
	}
	lm, rm, desc := derive(rng, ids)
	desc["clusters"] = clDesc
	return &pairCase{class: "skewed", desc: desc, pr: pr,
		local:  &side{m: lm, idx: build(lm, pr, rng, rng.Intn(4))},
		remote: &side{m: rm, idx: build(rm, pr, rng, rng.Intn(4))}}
}
