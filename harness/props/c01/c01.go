// Package c01: replicas of an object tree converge under any message schedule.
package c01

import (
	"context"
	"fmt"
	"hash/fnv"
	"sort"
	"strings"

	"github.com/anyproto/any-sync/commonspace/object/tree/objecttree"
	"github.com/anyproto/any-sync/commonspace/spacesyncproto"
	"github.com/anyproto/any-sync/commonspace/object/tree/treechangeproto"

	"verifharness/engines/netsim"
	"verifharness/lib"
)

type Prop struct{}

func (Prop) ID() string    { return "C01" }
func (Prop) Level() string { return "exploration" }
func (Prop) Rule() string {
	return "each case is one PRNG-chosen schedule of a simulated network of 2-4 real sync-tree replicas (own any-store db each): 10-60 steps of local AddContent (plain/snapshot), deliver/drop/duplicate/truncate of marshalled head updates, full-sync requests and response streams, restarts, optional late joiner; then one reliable round of one SyncWithPeer per unordered pair drained to quiescence. Online monitors after every step, convergence oracle at the end. Non-trivial = >=2 replicas authored changes and >=1 of {drop, duplicate, out-of-order delivery, truncated stream} occurred; distinct = hash of the executed event sequence."
}
func (Prop) Assumptions() []string {
	return []string{"ACL is fixed during the run (all replicas are writers)", "messages are not corrupted (authenticity is C02/C11)", "anti-entropy phase is reliable and fair: one SyncWithPeer per unordered pair (random initiator), all messages delivered"}
}

func (Prop) Plan(tier string) []lib.Workload {
	n := 300
	if tier == "thorough" {
		n = 4000
	}
	wide := 40
	if tier == "thorough" {
		wide = 600
	}
	// "wide": 5-6 replicas, frequent snapshots, few deliveries between edits - many concurrent heads citing
	// different snapshots (added after seeded change C01-2 was caught only once in 300 ordinary schedules)
	return []lib.Workload{{Name: "schedules", Cases: n, MinNontrivial: n / 4}, {Name: "wide", Cases: wide, MinNontrivial: wide / 4}}
}

func (Prop) RunCase(c *lib.Case) {
	RunSchedule(c, nil)
}

// Params of one schedule (all drawn from the case PRNG).
type Params struct {
	N          int
	Steps      int
	PSnapshot  float64
	PDrop      float64
	PDup       float64
	PRestart   float64
	PTrunc     float64
	LateJoiner bool
	Encrypted  bool
	MaxSize    int
}

func DrawParams(c *lib.Case) Params {
	r := c.Rng
	p := Params{N: 2 + r.Intn(3), Steps: 10 + r.Intn(51)}
	p.PSnapshot = []float64{0, 0.05, 0.15, 0.3}[r.Intn(4)]
	p.PDrop = []float64{0, 0.1, 0.3, 0.6}[r.Intn(4)]
	p.PDup = []float64{0, 0.1, 0.25}[r.Intn(3)]
	p.PRestart = []float64{0, 0, 0.03, 0.08}[r.Intn(4)]
	p.PTrunc = []float64{0, 0.2, 0.5}[r.Intn(3)]
	p.LateJoiner = p.N >= 3 && r.Intn(5) == 0
	p.Encrypted = r.Intn(2) == 0
	if c.Workload == "wide" {
		p.N = 5 + r.Intn(2)
		p.Steps = 40 + r.Intn(41)
		p.PSnapshot = []float64{0.15, 0.3, 0.45}[r.Intn(3)]
		p.PDrop = []float64{0.1, 0.3}[r.Intn(2)]
		p.LateJoiner = false
	}
	if c.Workload == "snap-pairs" {
		// C09: many snapshots by several writers under heavy loss, so that replicas sit reduced to
		// different (often concurrent, same-base) snapshots when a pair is sampled
		p.N = 3 + r.Intn(2)
		p.Steps = 25 + r.Intn(36)
		p.PSnapshot = []float64{0.3, 0.45, 0.6}[r.Intn(3)]
		p.PDrop = []float64{0.3, 0.6}[r.Intn(2)]
		p.LateJoiner = false
	}
	p.MaxSize = []int{8, 64, 600, 600, 400000}[r.Intn(5)]
	if c.Workload == "snap-pairs" && p.MaxSize > 1000 {
		p.MaxSize = 600
	}
	if c.Workload == "wide" && p.MaxSize > 1000 {
		p.MaxSize = 64
	}
	if p.MaxSize > 1000 {
		// a few big changes so that full-sync responses span several 1 MiB batches
		p.Steps = 10 + r.Intn(12)
	}
	return p
}

// Hook lets other properties (C06, C09) observe the run.
type Hook struct {
	AfterStep func(s *netsim.Sim, step int)
	AtEnd     func(s *netsim.Sim)
}

// Opts for other properties reusing the schedule driver.
type Opts struct {
	NoAntiEntropy bool
	// Quiet: do not record C01's evidence counters/samples/non-trivial keys (the caller has its own).
	Quiet bool
}

// RunSchedule executes one schedule with all C01 monitors.
func RunSchedule(c *lib.Case, hook *Hook) *netsim.Sim {
	return RunScheduleOpts(c, hook, Opts{})
}

func RunScheduleOpts(c *lib.Case, hook *Hook, o Opts) *netsim.Sim {
	p := DrawParams(c)
	s, err := netsim.New(netsim.Config{Dir: c.TmpDir, Replicas: p.N, Rng: c.Rng, Encrypted: p.Encrypted, LateJoiner: p.LateJoiner})
	if err != nil {
		c.Inconclusive("setup failed: " + err.Error())
		return nil
	}
	defer s.Close()
	mon := &monitor{c: c, s: s}
	s.OnSend = mon.onSend
	r := c.Rng
	authors := map[int]bool{}
	hostile := 0
	lastDelivered := map[int]int{} // recipient -> highest msg id delivered so far
	for step := 0; step < p.Steps; step++ {
		s.Step = step
		x := r.Float64()
		switch {
		case len(s.InFlight) == 0 || x < 0.35:
			i := r.Intn(p.N)
			if !s.Replicas[i].HasTree {
				// a replica without the tree cannot edit; let it try to join instead
				from := r.Intn(p.N)
				if from != i && s.Replicas[from].HasTree {
					err := s.Replicas[i].Join(from)
					s.Events = append(s.Events, netsim.Event{Step: step, Kind: "join", Actor: i, Detail: fmt.Sprintf("from=%d err=%v", from, err)})
					if err != nil {
						mon.problem("join-failed", "late joiner could not fetch the tree from a peer holding it", err.Error())
					}
				}
				break
			}
			snap := r.Float64() < p.PSnapshot
			id, err := s.LocalAdd(i, snap, 1+r.Intn(p.MaxSize))
			if err != nil {
				mon.problem("local-add-failed", "local AddContent by a writer failed", err.Error())
				break
			}
			authors[i] = true
			mon.checkCreated(i, id)
		case x < 0.35+p.PRestart:
			i := r.Intn(p.N)
			err := s.Replicas[i].Restart()
			s.Events = append(s.Events, netsim.Event{Step: step, Kind: "restart", Actor: i, Detail: fmt.Sprint(err)})
			c.Count("restarts", 1)
			if err != nil {
				mon.problem("restart-failed", "replica could not be reopened from its own storage", err.Error())
				finishProblems(c, s, mon, p)
				return s
			}
		default:
			pos := r.Intn(len(s.InFlight))
			m := s.InFlight[pos]
			y := r.Float64()
			switch {
			case y < p.PDrop:
				s.Drop(pos)
				hostile++
			case y < p.PDrop+p.PDup:
				s.Deliver(pos, -1, true)
				hostile++
			default:
				prefix := -1
				if m.Kind == netsim.KResponse && len(m.Batches) > 1 && r.Float64() < p.PTrunc {
					prefix = r.Intn(len(m.Batches))
					hostile++
				}
				if m.Id < lastDelivered[m.To] {
					hostile++
					c.Count("reordered_deliveries", 1)
				} else {
					lastDelivered[m.To] = m.Id
				}
				s.Deliver(pos, prefix, false)
			}
		}
		mon.afterStep()
		if hook != nil && hook.AfterStep != nil {
			hook.AfterStep(s, step)
		}
		if len(mon.problems) > 0 {
			break
		}
	}
	if len(mon.problems) == 0 && !o.NoAntiEntropy {
		antiEntropy(c, s, mon, p)
	}
	if hook != nil && hook.AtEnd != nil && len(mon.problems) == 0 {
		hook.AtEnd(s)
	}
	// evidence
	if o.Quiet {
		finishProblems(c, s, mon, p)
		return s
	}
	c.Eval(1)
	for k, v := range s.Counters {
		c.Count("net."+k, v)
	}
	c.Count("steps", int64(p.Steps))
	c.Count("changes_created", int64(len(s.Created)))
	sig := signature(s)
	if len(authors) >= 2 && hostile > 0 {
		c.Nontrivial(sig)
	}
	if c.Index < 40 {
		c.Sample(fmt.Sprintf("n%d", p.N), map[string]any{"params": p, "events_head": firstEvents(s, 14), "changes": len(s.Created)})
	}
	finishProblems(c, s, mon, p)
	return s
}

func finishProblems(c *lib.Case, s *netsim.Sim, mon *monitor, p Params) {
	for _, pr := range s.Problems {
		mon.problems = append(mon.problems, pr)
	}
	for _, pr := range mon.problems {
		c.Violation(pr.Key, pr.What, map[string]any{"params": p, "step": pr.Step, "detail": pr.Detail, "events": lastEvents(s, 60)})
	}
}

func firstEvents(s *netsim.Sim, n int) []string {
	var out []string
	for i, e := range s.Events {
		if i >= n {
			break
		}
		out = append(out, fmt.Sprintf("%d:%s@%d %s", e.Step, e.Kind, e.Actor, short(e.Detail)))
	}
	return out
}

func lastEvents(s *netsim.Sim, n int) []string {
	var out []string
	from := len(s.Events) - n
	if from < 0 {
		from = 0
	}
	for _, e := range s.Events[from:] {
		out = append(out, fmt.Sprintf("%d:%s@%d msg=%d %s", e.Step, e.Kind, e.Actor, e.Msg, e.Detail))
	}
	return out
}

func short(s string) string {
	if len(s) > 60 {
		return s[:60]
	}
	return s
}

func signature(s *netsim.Sim) string {
	h := fnv.New64a()
	for _, e := range s.Events {
		fmt.Fprintf(h, "%s/%d/%d;", e.Kind, e.Actor, e.Msg)
	}
	return fmt.Sprintf("%x", h.Sum64())
}

// antiEntropy: one reliable round of all-pairs SyncWithPeer, drained.
func antiEntropy(c *lib.Case, s *netsim.Sim, mon *monitor, p Params) {
	r := c.Rng
	// whatever is still in flight is delivered reliably too (the network drains)
	drain := func(phase string) bool {
		budget := 150 * (len(s.Created) + p.N*p.N + 10)
		total := budget
		defer func() {
			used := 100 * (total - budget) / total
			switch {
			case used <= 10:
				c.Count("drain.budget_used_le_10pct", 1)
			case used <= 25:
				c.Count("drain.budget_used_le_25pct", 1)
			case used <= 50:
				c.Count("drain.budget_used_le_50pct", 1)
			default:
				c.Count("drain.budget_used_gt_50pct", 1)
			}
		}()
		for len(s.InFlight) > 0 {
			if budget == 0 || len(s.InFlight) > 60*p.N*p.N {
				mon.problem("no-quiescence", "network did not drain within the delivery bound during reliable anti-entropy ("+phase+")",
					map[string]any{"in_flight": len(s.InFlight)})
				return false
			}
			budget--
			s.Step++
			pos := r.Intn(len(s.InFlight))
			to := s.InFlight[pos].To
			s.Deliver(pos, -1, false)
			mon.afterStep(to)
			if len(mon.problems) > 0 {
				return false
			}
		}
		return true
	}
	if !drain("pre") {
		return
	}
	maxRounds := 3
	for round := 1; round <= maxRounds; round++ {
		pairs := [][2]int{}
		for i := 0; i < p.N; i++ {
			for j := i + 1; j < p.N; j++ {
				// one exchange per unordered pair, initiated by a random side: the
				// responder's counter-request is what makes the exchange two-way
				if r.Intn(2) == 0 {
					pairs = append(pairs, [2]int{i, j})
				} else {
					pairs = append(pairs, [2]int{j, i})
				}
			}
		}
		r.Shuffle(len(pairs), func(a, b int) { pairs[a], pairs[b] = pairs[b], pairs[a] })
		for _, pr := range pairs {
			s.Step++
			if err := s.SyncWithPeer(pr[0], pr[1]); err != nil {
				mon.problem("sync-with-peer-failed", "SyncWithPeer returned an error", err.Error())
				return
			}
			s.Events = append(s.Events, netsim.Event{Step: s.Step, Kind: "sync-with-peer", Actor: pr[0], Detail: fmt.Sprint(pr[1])})
			// interleave deliveries with further exchanges
			for k := r.Intn(3); k > 0 && len(s.InFlight) > 0; k-- {
				pos := r.Intn(len(s.InFlight))
				to := s.InFlight[pos].To
				s.Deliver(pos, -1, false)
				mon.afterStep(to)
			}
		}
		if !drain(fmt.Sprintf("round %d", round)) {
			return
		}
		if diff := mon.converged(); diff == "" {
			c.Count(fmt.Sprintf("converged_after_round_%d", round), 1)
			return
		} else if round == 1 {
			// The statement promises identical state once every pair has completed one
			// exchange and the network has drained.
			mon.problem("not-converged-after-one-round", "replicas differ after a drained all-pairs anti-entropy round", diff)
			return
		}
	}
}

type monitor struct {
	c        *lib.Case
	s        *netsim.Sim
	problems []netsim.Problem
}

func (m *monitor) problem(key, what string, detail any) {
	m.problems = append(m.problems, netsim.Problem{Key: key, What: what, Step: m.s.Step, Detail: detail})
}

var bg = context.Background()

// onSend: (d) every head / snapshot-path id a replica advertises is held by it at send time.
func (m *monitor) onSend(s *netsim.Sim, msg *netsim.Msg) {
	r := s.Replicas[msg.From]
	if !r.HasTree {
		return
	}
	st := r.Tree.Storage()
	check := func(kind string, ids []string) {
		for _, id := range ids {
			ok, err := st.Has(bg, id)
			if err != nil || !ok {
				m.problem("advertised-unheld:"+msg.Kind+":"+kind, "a replica advertised a change id it does not hold",
					map[string]any{"replica": msg.From, "id": id, "msg": msg.Id})
			}
		}
	}
	m.c.Count("monitor.advertisements_checked", 1)
	switch msg.Kind {
	case netsim.KHeadUpdate, netsim.KRequest:
		check("heads", msg.AdvHeads)
		check("snapshot_path", msg.AdvPath)
	case netsim.KResponse:
		for _, b := range msg.Batches {
			heads, path, _ := parseResponse(b)
			check("heads", heads)
			check("snapshot_path", path)
		}
	}
}

func parseResponse(b []byte) (heads, path []string, changes []*treechangeproto.RawTreeChangeWithId) {
	osm := &spacesyncproto.ObjectSyncMessage{}
	if osm.UnmarshalVT(b) != nil {
		return
	}
	tm := &treechangeproto.TreeSyncMessage{}
	if tm.UnmarshalVT(osm.Payload) != nil {
		return
	}
	if fr := tm.GetContent().GetFullSyncResponse(); fr != nil {
		return fr.Heads, fr.SnapshotPath, fr.Changes
	}
	return
}

func (m *monitor) checkCreated(i int, id string) {
	ok, err := m.s.Replicas[i].Tree.Storage().Has(bg, id)
	if err != nil || !ok {
		m.problem("created-not-stored", "a change reported as added by local AddContent is not stored", map[string]any{"replica": i, "id": id})
	}
}

// afterStep: monitors (a)-(c) on every replica holding the tree.
func (m *monitor) afterStep(touched ...int) {
	for _, r := range m.s.Replicas {
		if !r.HasTree {
			continue
		}
		if len(touched) > 0 && !contains(touched, r.Idx) {
			continue
		}
		m.c.Count("monitor.replica_states_checked", 1)
		stored, err := r.Stored()
		if err != nil {
			m.problem("storage-scan-failed", "cannot scan stored changes", err.Error())
			continue
		}
		have := map[string]bool{}
		referenced := map[string]bool{}
		for _, ch := range stored {
			have[ch.Id] = true
		}
		prevOrder := ""
		seen := map[string]bool{}
		for i, ch := range stored {
			if ch.OrderId <= prevOrder && i > 0 {
				m.problem("stored-order-not-increasing", "stored order ids are not strictly increasing", map[string]any{"replica": r.Idx, "id": ch.Id})
			}
			prevOrder = ch.OrderId
			for _, p := range ch.PrevIds {
				referenced[p] = true
				if !have[p] {
					m.problem("stored-without-parent", "a stored change's parent is not stored", map[string]any{"replica": r.Idx, "change": ch.Id, "missing_parent": p})
				} else if !seen[p] {
					m.problem("stored-child-before-parent", "storage order places a change before its parent", map[string]any{"replica": r.Idx, "change": ch.Id, "parent": p})
				}
			}
			seen[ch.Id] = true
			if ch.SnapshotId != "" && !have[ch.SnapshotId] {
				m.problem("stored-without-snapshot-base", "a stored change's snapshot base is not stored", map[string]any{"replica": r.Idx, "change": ch.Id, "missing": ch.SnapshotId})
			}
		}
		var sinks []string
		for _, ch := range stored {
			if !referenced[ch.Id] {
				sinks = append(sinks, ch.Id)
			}
		}
		sort.Strings(sinks)
		memHeads := r.Heads()
		stHeads, err := r.Tree.Storage().Heads(bg)
		if err != nil {
			m.problem("storage-heads-failed", "cannot read stored heads", err.Error())
			continue
		}
		sort.Strings(stHeads)
		entry, err := r.Space.HeadStorage().GetEntry(bg, m.s.TreeId)
		if err != nil {
			m.problem("head-entry-missing", "head storage has no entry for the tree", err.Error())
			continue
		}
		eh := append([]string{}, entry.Heads...)
		sort.Strings(eh)
		if !eq(memHeads, stHeads) || !eq(memHeads, eh) {
			m.problem("head-views-disagree", "in-memory heads, stored heads and the head-storage entry disagree",
				map[string]any{"replica": r.Idx, "memory": memHeads, "storage": stHeads, "head_entry": eh})
		}
		if !eq(memHeads, sinks) {
			m.problem("heads-not-sinks", "heads differ from the sinks of the stored change graph",
				map[string]any{"replica": r.Idx, "heads": memHeads, "sinks": sinks})
		}
		// in-memory tree: every presented non-root change has all its parents attached
		r.Tree.Lock()
		rootId := r.Tree.Root().Id
		var bad []string
		_ = r.Tree.IterateRoot(nil, func(ch *objecttree.Change) bool {
			if ch.Id == rootId {
				return true
			}
			if !r.Tree.HasChanges(ch.PreviousIds...) {
				bad = append(bad, ch.Id)
			}
			if !have[ch.Id] {
				bad = append(bad, "unstored:"+ch.Id)
			}
			return true
		})
		r.Tree.Unlock()
		if len(bad) > 0 {
			m.problem("attached-without-ancestor", "the in-memory tree holds a change whose parents it does not hold (or that is not stored)",
				map[string]any{"replica": r.Idx, "changes": bad})
		}
	}
}

func contains(xs []int, x int) bool {
	for _, v := range xs {
		if v == x {
			return true
		}
	}
	return false
}

func eq(a, b []string) bool { return strings.Join(a, ",") == strings.Join(b, ",") }

// converged returns "" when all replicas hold identical head sets and stored sets equal to everything ever created.
func (m *monitor) converged() string {
	var want []string
	for id := range m.s.Created {
		want = append(want, id)
	}
	want = append(want, m.s.TreeId)
	sort.Strings(want)
	var refHeads []string
	for i, r := range m.s.Replicas {
		if !r.HasTree {
			return fmt.Sprintf("replica %d never obtained the tree", i)
		}
		ids, err := r.StoredIds()
		if err != nil {
			return err.Error()
		}
		if !eq(ids, want) {
			return fmt.Sprintf("replica %d stores %d changes, %d were created (missing %v, extra %v)", i, len(ids), len(want), diff(want, ids), diff(ids, want))
		}
		h := r.Heads()
		if i == 0 {
			refHeads = h
		} else if !eq(h, refHeads) {
			return fmt.Sprintf("replica %d heads %v differ from replica 0 heads %v", i, h, refHeads)
		}
	}
	return ""
}

func diff(a, b []string) []string {
	in := map[string]bool{}
	for _, x := range b {
		in[x] = true
	}
	var out []string
	for _, x := range a {
		if !in[x] {
			out = append(out, x)
		}
	}
	return out
}
