package c04

import (
	"fmt"
	"sort"

	"github.com/anyproto/any-sync/commonspace/object/acl/list"

	"verifharness/engines/aclgen"
)

// The rule predicates. Each is a sentence of the C04 statement turned into a
// predicate over (B = obs before, A = obs after, author, what the harness
// itself put into the record). None of them looks at validator.go.
//
//	one-owner            "exactly one owner exists before and after"
//	admin-role           "only the owner grants or revokes the Admin role (by any route)"
//	                     route "by invite": an open invite at Admin level may only be created /
//	                     raised to Admin by the owner; joining through such a live invite is the
//	                     owner's grant, not the joiner's.
//	owner-only           "only the owner … transfers ownership or changes space options"
//	manager-only         "only owners and admins add, remove, approve, decline or re-permission
//	                     other accounts and manage invites"
//	guest-frozen         "guests are never re-permissioned" (removal is not re-permissioning)
//	owner-protected      "the owner is never demoted or removed by others"
//	outsider-access      "outsiders gain access only through a live invite, with at most the
//	                     invite's permissions" — or through a record authored by an owner/admin
//	                     (add, approve, re-permission: allowed by manager-only)
//	member-scope         "an ordinary member can only affect its own membership (request removal,
//	                     cancel its request)": a non-manager never changes its own permission
//	                     (other than an outsider's join above), nor keys, owner, options.
type violation struct {
	key  string
	rule string
	what string
}

type ruleStats struct {
	evaluated  map[string]int64
	antecedent map[string]int64
}

func (r *ruleStats) eval(rule string, antecedent bool) {
	if r.evaluated == nil {
		r.evaluated, r.antecedent = map[string]int64{}, map[string]int64{}
	}
	r.evaluated[rule]++
	if antecedent {
		r.antecedent[rule]++
	}
}

func isManager(p list.AclPermissions) bool {
	return p == list.AclPermissionsOwner || p == list.AclPermissionsAdmin
}

// rank orders the levels an invite can carry; levels outside it are incomparable.
func rank(p list.AclPermissions) int {
	switch p {
	case list.AclPermissionsReader:
		return 1
	case list.AclPermissionsWriter:
		return 2
	case list.AclPermissionsAdmin:
		return 3
	}
	return 0
}

func names(B, A aclgen.Observation) []string {
	set := map[string]bool{}
	for n := range B.Accounts {
		set[n] = true
	}
	for n := range A.Accounts {
		set[n] = true
	}
	out := make([]string, 0, len(set))
	for n := range set {
		out = append(out, n)
	}
	sort.Strings(out)
	return out
}

func requestsOf(o aclgen.Observation, who string) string {
	var ids []string
	for id, n := range o.JoinReq {
		if n == who {
			ids = append(ids, "j:"+id)
		}
	}
	for id, n := range o.RemoveReq {
		if n == who {
			ids = append(ids, "r:"+id)
		}
	}
	sort.Strings(ids)
	return fmt.Sprint(ids)
}

// judge evaluates every rule for one accepted record.
func judge(B, A aclgen.Observation, it *item, rs *ruleStats) (out []violation) {
	author := it.author.Name
	aRole := B.Perm(author)
	aRoleName := aclgen.PermName(aRole)
	kind := it.kind
	if kind == "request_accept" && it.target != "" && B.Perm(it.target) != list.AclPermissionsNone {
		// a pending JOIN request whose requester has meanwhile become a member by another route
		kind = "request_accept-of-stale-join-request"
	}
	add := func(rule, target, what string) {
		tRole := "-"
		if target != "" {
			tRole = aclgen.PermName(B.Perm(target))
			if target == author {
				tRole = "self"
			}
		}
		out = append(out, violation{key: fmt.Sprintf("%s:%s:%s->%s", kind, rule, aRoleName, tRole), rule: rule, what: what})
	}
	// the join route the harness itself encoded in the content: own join through a live
	// anyone-can-join invite, signed with that invite's key
	liveJoin := func(x string) (aclgen.InviteObs, bool) {
		if it.joinInvite == "" || !it.joinSigOK || x != author {
			return aclgen.InviteObs{}, false
		}
		if len(it.kind) < 11 || it.kind[:11] != "invite_join" {
			return aclgen.InviteObs{}, false
		}
		inv, ok := B.Invites[it.joinInvite]
		return inv, ok && inv.Type == 1
	}

	// one-owner
	rs.eval("one-owner", true)
	if B.Owners != 1 {
		add("one-owner-before", "", fmt.Sprintf("%d owners before the record", B.Owners))
	}
	if A.Owners != 1 {
		add("one-owner", "", fmt.Sprintf("%d accounts hold Owner permission after the accepted record", A.Owners))
	}

	for _, x := range names(B, A) {
		b, a := B.Accounts[x], A.Accounts[x]
		changed := b != a
		// admin-role
		adminChange := (b.Perm == list.AclPermissionsAdmin) != (a.Perm == list.AclPermissionsAdmin)
		rs.eval("admin-role", adminChange)
		if adminChange && aRole != list.AclPermissionsOwner {
			ok := false
			if inv, live := liveJoin(x); live && a.Perm == list.AclPermissionsAdmin && inv.Perm == list.AclPermissionsAdmin && b.Perm == list.AclPermissionsNone {
				ok = true // the owner's grant by Admin-level invite
			}
			if !ok {
				add("admin-role-change-by-non-owner", x, fmt.Sprintf("%s: %s -> %s by %s (%s)", x, aclgen.PermName(b.Perm), aclgen.PermName(a.Perm), author, aRoleName))
			}
		}
		// manager-only (other accounts' entries and requests)
		otherChanged := x != author && (changed || requestsOf(B, x) != requestsOf(A, x))
		rs.eval("manager-only", otherChanged)
		if otherChanged && !isManager(aRole) {
			add("other-account-changed-by-non-manager", x, fmt.Sprintf("%s: %s/%s -> %s/%s by %s (%s)", x, aclgen.PermName(b.Perm), aclgen.StatusName(b.Status), aclgen.PermName(a.Perm), aclgen.StatusName(a.Status), author, aRoleName))
		}
		// guest-frozen
		wasGuest := b.Perm == list.AclPermissionsGuest
		rs.eval("guest-frozen", wasGuest && changed)
		if wasGuest && a.Perm != list.AclPermissionsGuest && !(a.Perm == list.AclPermissionsNone && a.Status == list.StatusRemoved) {
			add("guest-repermissioned", x, fmt.Sprintf("guest %s -> %s/%s by %s (%s)", x, aclgen.PermName(a.Perm), aclgen.StatusName(a.Status), author, aRoleName))
		}
		// owner-protected
		wasOwner := b.Perm == list.AclPermissionsOwner
		rs.eval("owner-protected", wasOwner && x != author && changed)
		// the statement protects the owner from being demoted or removed by others. A change of the
		// status label alone (e.g. an admin declining a stale join request of the account that later
		// became owner: Active -> Declined, permissions untouched) is neither; it was reported by the
		// first version of this rule (thorough tier only) and is a false alarm of the oracle, see DESIGN 8.7.
		if wasOwner && x != author && changed && a.Perm == b.Perm {
			rs.eval("owner-status-only-changed-by-other(counted)", true)
		}
		if wasOwner && x != author && a.Perm != b.Perm {
			add("owner-changed-by-other", x, fmt.Sprintf("owner %s: -> %s/%s by %s (%s)", x, aclgen.PermName(a.Perm), aclgen.StatusName(a.Status), author, aRoleName))
		}
		// outsider-access
		gained := b.Perm == list.AclPermissionsNone && a.Perm != list.AclPermissionsNone
		rs.eval("outsider-access", gained)
		if gained && !isManager(aRole) {
			inv, live := liveJoin(x)
			switch {
			case !live:
				add("access-without-live-invite", x, fmt.Sprintf("%s gained %s through a record of %s (%s) that is neither owner/admin-authored nor an own join through a live open invite", x, aclgen.PermName(a.Perm), author, aRoleName))
			case rank(a.Perm) == 0 || rank(a.Perm) > rank(inv.Perm):
				add("access-above-invite", x, fmt.Sprintf("%s joined with %s through an invite carrying %s", x, aclgen.PermName(a.Perm), aclgen.PermName(inv.Perm)))
			}
		}
		// member-scope: a non-manager never changes its own permission (joins are handled above)
		selfPerm := x == author && b.Perm != list.AclPermissionsNone && b.Perm != a.Perm
		rs.eval("member-scope", selfPerm && !isManager(aRole))
		if selfPerm && !isManager(aRole) {
			add("own-permission-changed-by-non-manager", x, fmt.Sprintf("%s changed its own permission %s -> %s", x, aclgen.PermName(b.Perm), aclgen.PermName(a.Perm)))
		}
	}

	// invites
	invChanged := false
	for id, ia := range A.Invites {
		ib, had := B.Invites[id]
		if !had || ib != ia {
			invChanged = true
			toAdmin := ia.Perm == list.AclPermissionsAdmin && (!had || ib.Perm != list.AclPermissionsAdmin) && ia.Type == 1
			rs.eval("admin-role(invite)", toAdmin)
			if toAdmin && aRole != list.AclPermissionsOwner {
				add("admin-invite-by-non-owner", "", fmt.Sprintf("open invite at Admin level created/raised by %s (%s)", author, aRoleName))
			}
		}
	}
	for id := range B.Invites {
		if _, still := A.Invites[id]; !still {
			invChanged = true
		}
	}
	rs.eval("manager-only(invites)", invChanged)
	if invChanged && !isManager(aRole) {
		add("invites-changed-by-non-manager", "", fmt.Sprintf("invite set changed by %s (%s)", author, aRoleName))
	}

	// owner-only
	ownerMoved := A.Owner != B.Owner
	rs.eval("owner-only(transfer)", ownerMoved)
	if ownerMoved && aRole != list.AclPermissionsOwner {
		add("ownership-moved-by-non-owner", B.Owner, fmt.Sprintf("owner %s -> %s by %s (%s)", B.Owner, A.Owner, author, aRoleName))
	}
	optChanged := A.Options != B.Options
	rs.eval("owner-only(options)", optChanged)
	if optChanged && aRole != list.AclPermissionsOwner {
		add("options-changed-by-non-owner", "", fmt.Sprintf("options %s -> %s by %s (%s)", B.Options, A.Options, author, aRoleName))
	}
	// keys are managed with memberships: never by ordinary members / outsiders
	keysChanged := A.CurKey != B.CurKey || fmt.Sprint(A.KeyIds) != fmt.Sprint(B.KeyIds)
	rs.eval("member-scope(keys)", keysChanged)
	if keysChanged && !isManager(aRole) {
		add("read-keys-changed-by-non-manager", "", fmt.Sprintf("read-key generations changed by %s (%s)", author, aRoleName))
	}
	return
}
