// Package c04: ACL privilege rules cannot be bypassed by any constructible
// record.
//
// For reachable ACL states s (scripted scenarios + guided builder histories +
// accepted hand-built records) the whole record alphabet — every content kind
// x author x target x permission level x live/dead invite id x pending/
// resolved request id, single-content and sampled ordered pairs as 2-content
// records — is hand-assembled, signed by the author and given to the fully
// validating ValidateRawRecord of a non-member node (plus AddRawRecord on
// throw-away views). For every ACCEPTED record the rule predicates of rules.go
// are evaluated over (obs(s), obs(s.r), author); they are derived from the
// property statement, not from validator.go.
package c04

import (
	"fmt"
	"sort"
	"strings"

	"github.com/anyproto/any-sync/commonspace/object/acl/list"
	"github.com/anyproto/any-sync/consensus/consensusproto"
	"github.com/anyproto/any-sync/util/crypto"

	"verifharness/engines/aclgen"
	"verifharness/lib"
)

type Prop struct{}

func (Prop) ID() string    { return "C04" }
func (Prop) Level() string { return "exploration" }
func (Prop) Rule() string {
	return "walk: one case = a world of 10 accounts (owner, 2 admins, 2 writers, reader, guest, later-removed member, joiner, outsider) + validating node; a scripted scenario (one of 6: team with live/dead invites, pending/resolved join requests, pending removal requests of a writer and of an admin, transferred ownership, …) followed by 0-8 guided builder steps; then at each of 3 (thorough 4) stations the full single-content alphabet (17 content kinds x 10 authors x 11 targets x 6 permission levels x live/dead/unknown invite ids x pending/resolved/unknown request ids x valid/invalid invite-key signatures, ~3-5k records) and a sample of 2-content records (first content an accepted single, second any single of the same author; quick 400, thorough 2500 per station) are validated; between stations the walk advances by builder steps or by applying an accepted hand-built record. Non-trivial = an accepted record that changed obs; distinct keys = (content kind, author role, target role, permission) of such records and, prefixed 'state:', the shape of each station state."
}
func (Prop) Assumptions() []string {
	return []string{
		"the validating identity (node) is never the target of a record, so no decryption happens inside validation (ciphertext robustness is C11)",
		"role of the author = its permission in obs(s); for the second content of a 2-content record the state after the first content alone (validated as a single) is used as s",
		"an owner/admin-authored permission change on an account without permissions counts as owner/admin re-permissioning (allowed by the statement); its key-delivery aspect is C05 (F-C05-1)",
		"records with no / unknown content are accepted from anybody and change nothing but the head: counted (void_record_accepted), not judged — the statement speaks about privileges, not about who may extend the chain",
	}
}

func (Prop) Plan(tier string) []lib.Workload {
	if tier == "thorough" {
		return []lib.Workload{{Name: "walk", Cases: 1000, MinNontrivial: 400, Batches: 64}}
	}
	return []lib.Workload{{Name: "walk", Cases: 36, MinNontrivial: 150}}
}

func (Prop) RunCase(c *lib.Case) {
	if c.Workload == "walk" {
		runWalk(c)
	}
}

const bogusId = "bafyreibogusbogusbogusbogusbogusbogusbogusbogusbogusbogusbogu"

// item is one record of the alphabet (its contents; the author signs it).
type item struct {
	kind    string // content kind, refined by what it cites ("request_accept-of-remove-request")
	author  *aclgen.Account
	cv      *aclgen.CV
	desc    string
	target  string              // account the content is aimed at ("" if none)
	perm    list.AclPermissions // permission parameter (None if not applicable)
	hasPerm bool
	// invite-join route information (what the harness itself put into the content)
	joinInvite string
	joinSigOK  bool
	invKey     crypto.PrivKey // key of the invite the content creates
	// results
	accepted bool
	err      string
	after    aclgen.Observation
	changed  bool
	violated bool
}

type walk struct {
	c     *lib.Case
	w     *aclgen.World
	ops   []string
	rules *ruleStats
}

func (k *walk) witness(extra map[string]any) map[string]any {
	m := map[string]any{"history": k.ops, "log_kinds": k.w.Kinds}
	for a, b := range extra {
		m[a] = b
	}
	return m
}

func runWalk(c *lib.Case) {
	w, err := aclgen.NewWorld(c.Rng, nil)
	if err != nil {
		panic("harness: " + err.Error())
	}
	k := &walk{c: c, w: w, rules: &ruleStats{}}
	k.scenario(c.Index % nScenarios)
	rng := c.Rng
	for i, n := 0, rng.Intn(9); i < n; i++ {
		k.builderStep()
	}
	stations := 3
	if !c.Quick() {
		stations = 4
	}
	for s := 0; s < stations; s++ {
		accepted := k.station()
		// advance
		for i, n := 0, 1+rng.Intn(3); i < n; i++ {
			if len(accepted) > 0 && rng.Intn(5) < 2 {
				it := accepted[rng.Intn(len(accepted))]
				var keys []crypto.PrivKey
				if it.invKey != nil {
					keys = []crypto.PrivKey{it.invKey}
				}
				raw := w.SignRaw(it.author, w.Head(), []*aclgen.CV{it.cv})
				if _, err := w.ApplyRaw(raw, keys); err != nil {
					c.Count("advance.raw_record_refused_by_add", 1)
				} else {
					k.ops = append(k.ops, "RAW "+it.author.Name+"."+it.desc)
					c.Count("advance.by_hand_built_record:"+it.kind, 1)
				}
				accepted = nil // the state moved on
			} else {
				k.builderStep()
			}
		}
	}
	for n, v := range w.Stats {
		c.Count("engine."+n, v)
	}
	c.Sample("history", map[string]any{"ops": k.ops})
}

func (k *walk) builderStep() {
	res := k.w.GenStep(0.05, walkWeights)
	if res.Raw == nil {
		return
	}
	if _, err := k.w.Apply(res); err != nil {
		k.c.Count("advance.builder_record_refused", 1)
		return
	}
	k.ops = append(k.ops, res.Op.String())
	k.c.Count("advance.by_builder:"+res.Op.Kind, 1)
}

// the walk favours operations that create requests / invites the alphabet can cite
var walkWeights = map[string]int{"invite": 6, "invite_anyone": 7, "invite_change": 3, "invite_revoke": 5, "request_join": 9, "invite_join": 6,
	"request_accept": 5, "request_decline": 5, "request_cancel": 3, "request_remove": 12, "permission_change": 7, "permission_changes": 2,
	"accounts_add": 9, "account_remove": 6, "read_key_change": 2, "ownership_change": 2, "options_change": 2, "batch": 4, "batch_rotate": 1}

const nScenarios = 6

// scenario builds a scripted prefix through the real builders.
func (k *walk) scenario(n int) {
	w := k.w
	do := func(actor, kind, detail string, call aclgen.BuilderCall) *consensusproto.RawRecordWithId {
		res := w.Build(aclgen.Op{Kind: kind, Actor: actor, Detail: detail}, call)
		rec, err := w.Apply(res)
		if err != nil {
			k.c.Count("scenario.step_refused:"+kind, 1)
			k.c.Logf("scenario step %s.%s(%s) refused: %v %s", actor, kind, detail, err, res.PanicMsg)
			return nil
		}
		k.ops = append(k.ops, actor+"."+kind+"("+detail+")")
		return rec
	}
	add := func(actor, who string, p list.AclPermissions) {
		do(actor, "accounts_add", who+":"+aclgen.PermName(p), func(rb list.AclRecordBuilder) (*consensusproto.RawRecord, []crypto.PrivKey, error) {
			r, err := rb.BuildAccountsAdd(list.AccountsAddPayload{Additions: []list.AccountAdd{{Identity: w.Acc(who).Pub, Permissions: p, Metadata: []byte("m")}}})
			return r, nil, err
		})
	}
	remove := func(actor, who string) {
		mk, _, _ := crypto.GenerateRandomEd25519KeyPair()
		do(actor, "account_remove", who, func(rb list.AclRecordBuilder) (*consensusproto.RawRecord, []crypto.PrivKey, error) {
			r, err := rb.BuildAccountRemove(list.AccountRemovePayload{Identities: []crypto.PubKey{w.Acc(who).Pub}, Change: list.ReadKeyChangePayload{MetadataKey: mk, ReadKey: crypto.NewAES()}})
			return r, nil, err
		})
	}
	invite := func(actor string) (string, crypto.PrivKey) {
		var key crypto.PrivKey
		rec := do(actor, "invite", "", func(rb list.AclRecordBuilder) (*consensusproto.RawRecord, []crypto.PrivKey, error) {
			r, err := rb.BuildInvite()
			key = r.InviteKey
			return r.InviteRec, []crypto.PrivKey{r.InviteKey}, err
		})
		if rec == nil {
			return "", nil
		}
		return rec.Id, key
	}
	inviteAnyone := func(actor string, p list.AclPermissions) (string, crypto.PrivKey) {
		var key crypto.PrivKey
		rec := do(actor, "invite_anyone", aclgen.PermName(p), func(rb list.AclRecordBuilder) (*consensusproto.RawRecord, []crypto.PrivKey, error) {
			r, err := rb.BuildInviteAnyone(p)
			key = r.InviteKey
			return r.InviteRec, []crypto.PrivKey{r.InviteKey}, err
		})
		if rec == nil {
			return "", nil
		}
		return rec.Id, key
	}
	requestJoin := func(actor string, key crypto.PrivKey) string {
		rec := do(actor, "request_join", "", func(rb list.AclRecordBuilder) (*consensusproto.RawRecord, []crypto.PrivKey, error) {
			r, err := rb.BuildRequestJoin(list.RequestJoinPayload{InviteKey: key, Metadata: []byte("m")})
			return r, nil, err
		})
		if rec == nil {
			return ""
		}
		return rec.Id
	}
	requestRemove := func(actor string) {
		do(actor, "request_remove", "", func(rb list.AclRecordBuilder) (*consensusproto.RawRecord, []crypto.PrivKey, error) {
			r, err := rb.BuildRequestRemove()
			return r, nil, err
		})
	}
	revoke := func(actor, id string) {
		do(actor, "invite_revoke", "", func(rb list.AclRecordBuilder) (*consensusproto.RawRecord, []crypto.PrivKey, error) {
			r, err := rb.BuildInviteRevoke(id)
			return r, nil, err
		})
	}
	decline := func(actor, id string) {
		do(actor, "request_decline", "", func(rb list.AclRecordBuilder) (*consensusproto.RawRecord, []crypto.PrivKey, error) {
			r, err := rb.BuildRequestDecline(id)
			return r, nil, err
		})
	}
	team := func() (reqInv string, reqKey crypto.PrivKey) {
		add("owner", "admin1", list.AclPermissionsAdmin)
		add("owner", "admin2", list.AclPermissionsAdmin)
		add("admin1", "writer", list.AclPermissionsWriter)
		add("owner", "writer2", list.AclPermissionsWriter)
		add("admin2", "reader", list.AclPermissionsReader)
		add("owner", "guest", list.AclPermissionsGuest)
		add("owner", "removed", list.AclPermissionsWriter)
		remove("owner", "removed")
		reqInv, reqKey = invite("admin1")
		inviteAnyone("owner", list.AclPermissionsWriter)
		return
	}
	switch n {
	case 0:
		// owner only
	case 1:
		_, key := team()
		if key != nil {
			requestJoin("joiner", key)
		}
	case 2:
		// pending removal requests of a writer and of an admin
		_, key := team()
		if key != nil {
			requestJoin("joiner", key)
		}
		requestRemove("writer")
		requestRemove("admin2")
	case 3:
		// dead invite, resolved (declined) join request, admin-level open invite
		inv, key := team()
		if key != nil {
			if id := requestJoin("joiner", key); id != "" {
				decline("admin2", id)
			}
			revoke("owner", inv)
		}
		inviteAnyone("owner", list.AclPermissionsAdmin)
		inviteAnyone("admin1", list.AclPermissionsReader)
		_, k2 := invite("owner")
		if k2 != nil {
			requestJoin("outsider", k2)
		}
	case 4:
		// ownership transferred: the account named "owner" is now an admin, admin1 owns the space
		_, key := team()
		do("owner", "ownership_change", "admin1,old->admin", func(rb list.AclRecordBuilder) (*consensusproto.RawRecord, []crypto.PrivKey, error) {
			r, err := rb.BuildOwnershipChange(list.OwnershipChangePayload{NewOwner: w.Acc("admin1").Pub, OldOwnerPermissions: list.AclPermissionsAdmin})
			return r, nil, err
		})
		if key != nil {
			requestJoin("joiner", key)
		}
		requestRemove("reader")
		requestRemove("owner")
	case 5:
		// small space: one admin, one reader, guest, an open reader invite joined by the outsider
		add("owner", "admin1", list.AclPermissionsAdmin)
		add("admin1", "reader", list.AclPermissionsReader)
		add("admin1", "guest", list.AclPermissionsGuest)
		_, key := inviteAnyone("admin1", list.AclPermissionsReader)
		if key != nil {
			do("outsider", "invite_join", "", func(rb list.AclRecordBuilder) (*consensusproto.RawRecord, []crypto.PrivKey, error) {
				r, err := rb.BuildInviteJoinWithoutApprove(list.InviteJoinPayload{InviteKey: key, Metadata: []byte("m")})
				return r, nil, err
			})
		}
		requestRemove("admin1")
	}
}

// station enumerates the alphabet at the current state and judges every accepted record.
func (k *walk) station() (acceptedChanged []*item) {
	w, c := k.w, k.c
	canon := w.Canon
	B := canon.Obs()
	head := w.Head()
	c.Nontrivial("state:" + B.Shape())
	c.Count("stations", 1)
	items := k.alphabet(B)
	byAuthor := map[string][]*item{}
	for _, it := range items {
		k.try(it, B, head, []*aclgen.CV{it.cv})
		role := aclgen.PermName(B.Perm(it.author.Name))
		c.Eval(1)
		if !it.accepted {
			c.Count("single.rejected:"+it.kind+":by-"+role, 1)
			byAuthor[it.author.Name] = append(byAuthor[it.author.Name], it)
			continue
		}
		c.Count("single.accepted:"+it.kind+":by-"+role, 1)
		it.changed = !sameIgnoringHead(B, it.after)
		if it.kind == "empty" || it.kind == "no_content" {
			c.Count("void_record_accepted:by-"+role, 1)
		}
		vs := judge(B, it.after, it, k.rules)
		for _, v := range vs {
			it.violated = true
			c.Violation(v.key, v.what, k.witness(map[string]any{"state": B, "record": it.desc, "author": it.author.Name, "author_role": role, "after": it.after, "rule": v.rule}))
		}
		if it.changed {
			c.Nontrivial(fmt.Sprintf("%s|%s|%s|%s", it.kind, role, targetRole(B, it), permStr(it)))
			c.Count("single.accepted_changed_obs:"+it.kind+":by-"+role, 1)
			if !it.violated {
				acceptedChanged = append(acceptedChanged, it)
			}
		}
		byAuthor[it.author.Name] = append(byAuthor[it.author.Name], it)
	}
	// cross-check a sample with AddRawRecord on throw-away views
	k.crossCheck(items, B, head)
	// 2-content records
	nPairs := 400
	if !c.Quick() {
		nPairs = 2500
	}
	k.pairs(byAuthor, B, head, nPairs)
	// validation must not have touched the live state
	if after := canon.Obs(); after.Canon() != B.Canon() {
		c.Violation("validate-mutated-live-state", "ValidateRawRecord changed the list it was called on", k.witness(map[string]any{"before": B, "after": after}))
	}
	for r, n := range k.rules.evaluated {
		c.Count("rule.evaluated:"+r, n)
	}
	for r, n := range k.rules.antecedent {
		c.Count("rule.antecedent_true:"+r, n)
	}
	k.rules = &ruleStats{}
	return
}

func (k *walk) try(it *item, B aclgen.Observation, head string, contents []*aclgen.CV) {
	raw := k.w.SignRaw(it.author, head, contents)
	it.accepted, it.err = false, ""
	err := k.w.Canon.List.ValidateRawRecord(raw, func(st *list.AclState) error {
		it.after = k.w.ObserveState(st, st.LastRecordId())
		return nil
	})
	if err != nil {
		it.err = err.Error()
		return
	}
	it.accepted = true
}

func sameIgnoringHead(a, b aclgen.Observation) bool {
	a.Head, b.Head = "", ""
	return a.Canon() == b.Canon()
}

func targetRole(B aclgen.Observation, it *item) string {
	if it.target == "" {
		return "-"
	}
	if it.target == it.author.Name {
		return "self"
	}
	return aclgen.PermName(B.Perm(it.target))
}

func permStr(it *item) string {
	if !it.hasPerm {
		return "-"
	}
	return aclgen.PermName(it.perm)
}

// crossCheck: AddRawRecord on a throw-away copy of the reference view must give the
// same verdict and the same state as ValidateRawRecord; what it accepts is judged too.
func (k *walk) crossCheck(items []*item, B aclgen.Observation, head string) {
	w, c := k.w, k.c
	rng := c.Rng
	for _, it := range items {
		p := 0.01
		if it.accepted {
			p = 0.25
			if it.changed {
				p = 0.5
			}
			if !c.Quick() {
				p *= 1.6
			}
		}
		if rng.Float64() > p {
			continue
		}
		cl, err := w.Canon.CloneMem()
		if err != nil {
			panic("harness: clone: " + err.Error())
		}
		rec := aclgen.Wrap(w.SignRaw(it.author, head, []*aclgen.CV{it.cv}))
		err = cl.List.AddRawRecord(rec)
		c.Count("crosscheck.add_raw_record", 1)
		if (err == nil) != it.accepted {
			c.Count("crosscheck.verdict_differs", 1)
			c.Sample("crosscheck-verdict-differs", map[string]any{"record": it.desc, "author": it.author.Name, "validate_err": it.err, "add_err": fmt.Sprint(err)})
		}
		if err != nil {
			continue
		}
		got := cl.Obs().ReplaceId(rec.Id, "")
		if it.accepted && got.Canon() != it.after.ReplaceId("", "").Canon() {
			c.Count("crosscheck.state_differs", 1)
			c.Sample("crosscheck-state-differs", map[string]any{"record": it.desc, "author": it.author.Name, "validate": it.after, "add": got})
		}
		role := aclgen.PermName(B.Perm(it.author.Name))
		for _, v := range judge(B, got, it, k.rules) {
			c.Violation(v.key, v.what+" (AddRawRecord path)", k.witness(map[string]any{"state": B, "record": it.desc, "author": it.author.Name, "author_role": role, "after": got, "rule": v.rule}))
		}
	}
}

// pairs validates 2-content records [c1, c2] of one author: c1 an accepted single, c2 any
// single of the same author. The second content is judged against the state after c1 alone.
func (k *walk) pairs(byAuthor map[string][]*item, B aclgen.Observation, head string, n int) {
	c := k.c
	rng := c.Rng
	type cand struct {
		firsts, acc, rej []*item
	}
	var authors []string
	cands := map[string]*cand{}
	for a, its := range byAuthor {
		cd := &cand{}
		for _, it := range its {
			if it.accepted {
				cd.acc = append(cd.acc, it)
				if it.changed && !it.violated {
					cd.firsts = append(cd.firsts, it)
				}
			} else {
				cd.rej = append(cd.rej, it)
			}
		}
		if len(cd.firsts) > 0 {
			cands[a] = cd
			authors = append(authors, a)
		}
	}
	sort.Strings(authors)
	if len(authors) == 0 {
		return
	}
	for i := 0; i < n; i++ {
		cd := cands[authors[rng.Intn(len(authors))]]
		c1 := cd.firsts[rng.Intn(len(cd.firsts))]
		var c2 *item
		if rng.Intn(2) == 0 || len(cd.rej) == 0 {
			c2 = cd.acc[rng.Intn(len(cd.acc))]
		} else {
			c2 = cd.rej[rng.Intn(len(cd.rej))]
		}
		p := &item{kind: c2.kind, author: c1.author, desc: "[" + c1.desc + " ; " + c2.desc + "]", target: c2.target, perm: c2.perm, hasPerm: c2.hasPerm,
			joinInvite: c2.joinInvite, joinSigOK: c2.joinSigOK}
		k.try(p, B, head, []*aclgen.CV{c1.cv, c2.cv})
		c.Eval(1)
		B1 := c1.after
		role := aclgen.PermName(B1.Perm(p.author.Name))
		lbl := "second-was-rejected-single"
		if c2.accepted {
			lbl = "second-was-accepted-single"
		}
		if !p.accepted {
			c.Count("pair.rejected:"+lbl, 1)
			continue
		}
		c.Count("pair.accepted:"+lbl, 1)
		c.Count("pair.accepted:"+c1.kind+"+"+c2.kind, 1)
		if !sameIgnoringHead(B1, p.after) {
			c.Nontrivial(fmt.Sprintf("pair|%s|%s|%s|%s|%s", c1.kind, c2.kind, role, targetRole(B1, p), permStr(p)))
		}
		for _, v := range judge(B1, p.after, p, k.rules) {
			c.Violation(v.key+":as-2nd-content", v.what+" (second content of a 2-content record, judged against the state after the first)",
				k.witness(map[string]any{"state": B, "state_after_first": B1, "record": p.desc, "author": p.author.Name, "author_role_after_first": role, "after": p.after, "rule": v.rule}))
		}
	}
}

// alphabet assembles every single-content record of the alphabet for state B.
func (k *walk) alphabet(B aclgen.Observation) []*item {
	w := k.w
	var authors []*aclgen.Account
	for _, a := range w.Accounts {
		if a.Name != "node" {
			authors = append(authors, a)
		}
	}
	// targets: every account incl. the never-member node, plus a key nobody has seen
	type tgt struct {
		name  string
		pub   crypto.PubKey
		proto []byte
	}
	var targets []tgt
	for _, a := range w.Accounts {
		targets = append(targets, tgt{a.Name, a.Pub, a.PubProto})
	}
	_, spub, _ := crypto.GenerateRandomEd25519KeyPair()
	sproto, _ := spub.Marshall()
	targets = append(targets, tgt{"?stranger", spub, sproto})
	perms := aclgen.AllPerms()
	encCache := map[string][]byte{}
	enc := func(t tgt) []byte {
		if e, ok := encCache[t.name]; ok {
			return e
		}
		e := w.EncCurrentKeyFor(t.pub)
		encCache[t.name] = e
		return e
	}
	// invite ids: live, dead (ever created, not live any more), unknown
	var inviteIds []string
	for id := range B.Invites {
		inviteIds = append(inviteIds, id)
	}
	sort.Strings(inviteIds)
	dead := 0
	for _, inv := range w.Invites {
		if _, live := B.Invites[inv.Id]; !live && dead < 2 {
			inviteIds = append(inviteIds, inv.Id)
			dead++
		}
	}
	inviteIds = append(inviteIds, bogusId)
	inviteState := func(id string) string {
		if _, ok := B.Invites[id]; ok {
			return "live"
		}
		if id == bogusId {
			return "unknown"
		}
		return "dead"
	}
	// request ids: pending join, pending remove, resolved, unknown
	type req struct{ id, who, state string }
	var reqs []req
	for _, id := range sortedKeys(B.JoinReq) {
		reqs = append(reqs, req{id, B.JoinReq[id], "join"})
	}
	for _, id := range sortedKeys(B.RemoveReq) {
		reqs = append(reqs, req{id, B.RemoveReq[id], "remove"})
	}
	resolved := 0
	for _, r := range w.Requests {
		_, j := B.JoinReq[r.Id]
		_, m := B.RemoveReq[r.Id]
		if !j && !m && resolved < 2 {
			reqs = append(reqs, req{r.Id, r.Who, "resolved"})
			resolved++
		}
	}
	reqs = append(reqs, req{bogusId, "outsider", "unknown"})

	var out []*item
	add := func(it *item) { out = append(out, it) }
	var active, anyoneInvites []crypto.PubKey
	for _, a := range w.Accounts {
		if B.Perm(a.Name) != list.AclPermissionsNone {
			active = append(active, a.Pub)
		}
	}
	for id, inv := range B.Invites {
		if inv.Type == 1 {
			if info := w.InviteById(id); info != nil && info.Key != nil {
				anyoneInvites = append(anyoneInvites, info.Key.GetPublic())
			}
		}
	}
	kit := w.NewKeyKit(w.CurrentKeyFor(B.Owner))
	without := func(pk crypto.PubKey) []crypto.PubKey {
		var r []crypto.PubKey
		for _, p := range active {
			if !p.Equals(pk) {
				r = append(r, p)
			}
		}
		return r
	}

	for _, a := range authors {
		for _, t := range targets {
			for _, p := range perms {
				add(&item{kind: "permission_change", author: a, cv: aclgen.CPermChange(t.proto, p), desc: fmt.Sprintf("permission_change(%s->%s)", t.name, aclgen.PermName(p)), target: t.name, perm: p, hasPerm: true})
				add(&item{kind: "accounts_add", author: a, cv: aclgen.CAccountsAdd(aclgen.AddEntry{Identity: t.proto, Perm: p, EncKey: enc(t)}), desc: fmt.Sprintf("accounts_add(%s:%s)", t.name, aclgen.PermName(p)), target: t.name, perm: p, hasPerm: true})
				add(&item{kind: "ownership_change", author: a, cv: aclgen.COwnership(t.proto, p), desc: fmt.Sprintf("ownership_change(new=%s,old->%s)", t.name, aclgen.PermName(p)), target: t.name, perm: p, hasPerm: true})
			}
			// removal with a correct key rotation (everybody but the removed account)
			add(&item{kind: "account_remove", author: a, cv: aclgen.CAccountRemove([][]byte{t.proto}, kit.ReadKeyChange(without(t.pub), anyoneInvites)), desc: "account_remove(" + t.name + ")", target: t.name})
		}
		// permission_changes with two entries (one legal-looking, one aimed high)
		add(&item{kind: "permission_changes", author: a, cv: aclgen.CPermChanges(aclgen.PermPair{Identity: w.Acc("writer").PubProto, Perm: list.AclPermissionsReader}, aclgen.PermPair{Identity: w.Acc("reader").PubProto, Perm: list.AclPermissionsAdmin}), desc: "permission_changes(writer->reader,reader->admin)", target: "reader", perm: list.AclPermissionsAdmin, hasPerm: true})
		add(&item{kind: "permission_changes", author: a, cv: aclgen.CPermChanges(aclgen.PermPair{Identity: w.Acc("writer2").PubProto, Perm: list.AclPermissionsReader}, aclgen.PermPair{Identity: a.PubProto, Perm: list.AclPermissionsOwner}), desc: "permission_changes(writer2->reader,self->owner)", target: a.Name, perm: list.AclPermissionsOwner, hasPerm: true})
		// two removals in one content
		add(&item{kind: "account_remove", author: a, cv: aclgen.CAccountRemove([][]byte{w.Acc("writer").PubProto, w.Acc("admin2").PubProto}, kit.ReadKeyChange(without2(active, w.Acc("writer").Pub, w.Acc("admin2").Pub), anyoneInvites)), desc: "account_remove(writer,admin2)", target: "admin2"})
		for _, anyone := range []bool{false, true} {
			for _, p := range perms {
				ik, ip, _ := crypto.GenerateRandomEd25519KeyPair()
				ipp, _ := ip.Marshall()
				kind := "invite"
				if anyone {
					kind = "invite_anyone"
				}
				add(&item{kind: kind, author: a, cv: aclgen.CInvite(ipp, anyone, p, w.EncCurrentKeyFor(ip)), desc: fmt.Sprintf("%s(%s)", kind, aclgen.PermName(p)), perm: p, hasPerm: true, invKey: ik})
			}
		}
		for _, id := range inviteIds {
			st := inviteState(id)
			for _, p := range perms {
				add(&item{kind: "invite_change-of-" + st + "-invite", author: a, cv: aclgen.CInviteChange(id, p), desc: fmt.Sprintf("invite_change(%s,%s)", st, aclgen.PermName(p)), perm: p, hasPerm: true})
			}
			add(&item{kind: "invite_revoke-of-" + st + "-invite", author: a, cv: aclgen.CInviteRevoke(id), desc: "invite_revoke(" + st + ")"})
			// joins: signed by the invite's key (when the harness knows it) or by a foreign key
			var ikey crypto.PrivKey
			if info := w.InviteById(id); info != nil {
				ikey = info.Key
			}
			fk, _, _ := crypto.GenerateRandomEd25519KeyPair()
			for _, sigOK := range []bool{true, false} {
				signer := fk
				if sigOK {
					if ikey == nil {
						continue
					}
					signer = ikey
				}
				sig, _ := signer.Sign(a.PubRaw)
				sfx := ""
				if !sigOK {
					sfx = ",foreign-invite-signature"
				}
				ityp := "request"
				if B.Invites[id].Type == 1 {
					ityp = "anyone"
				}
				if st != "live" {
					ityp = st
				}
				add(&item{kind: "request_join-via-" + ityp + "-invite", author: a, cv: aclgen.CRequestJoin(a.PubProto, id, sig), desc: "request_join(" + ityp + sfx + ")", target: a.Name, joinInvite: id, joinSigOK: sigOK})
				for _, p := range perms {
					add(&item{kind: "invite_join-via-" + ityp + "-invite", author: a, cv: aclgen.CInviteJoin(a.PubProto, id, sig, p, enc(tgt{a.Name, a.Pub, a.PubProto})), desc: fmt.Sprintf("invite_join(%s,%s%s)", ityp, aclgen.PermName(p), sfx), target: a.Name, perm: p, hasPerm: true, joinInvite: id, joinSigOK: sigOK})
				}
			}
			// a join naming somebody else's identity
			if ikey != nil {
				o := w.Acc("outsider")
				sig, _ := ikey.Sign(o.PubRaw)
				add(&item{kind: "request_join-for-other-identity", author: a, cv: aclgen.CRequestJoin(o.PubProto, id, sig), desc: "request_join(identity=outsider)", target: "outsider", joinInvite: id, joinSigOK: true})
				add(&item{kind: "invite_join-for-other-identity", author: a, cv: aclgen.CInviteJoin(o.PubProto, id, sig, list.AclPermissionsReader, enc(tgt{o.Name, o.Pub, o.PubProto})), desc: "invite_join(identity=outsider,reader)", target: "outsider", perm: list.AclPermissionsReader, hasPerm: true, joinInvite: id, joinSigOK: true})
			}
		}
		for _, r := range reqs {
			who := w.Acc(r.who)
			if who == nil {
				who = w.Acc("outsider")
			}
			kinds := map[string]string{"join": "request_accept", "remove": "request_accept-of-remove-request", "resolved": "request_accept-of-resolved-request", "unknown": "request_accept-of-unknown-request"}
			for _, p := range perms {
				add(&item{kind: kinds[r.state], author: a, cv: aclgen.CRequestAccept(who.PubProto, r.id, p, enc(tgt{who.Name, who.Pub, who.PubProto})), desc: fmt.Sprintf("request_accept(%s-request of %s,%s)", r.state, who.Name, aclgen.PermName(p)), target: who.Name, perm: p, hasPerm: true})
			}
			// accept naming another identity than the requester
			other := w.Acc("outsider")
			if other == who {
				other = w.Acc("reader")
			}
			add(&item{kind: kinds[r.state] + "-for-other-identity", author: a, cv: aclgen.CRequestAccept(other.PubProto, r.id, list.AclPermissionsWriter, enc(tgt{other.Name, other.Pub, other.PubProto})), desc: fmt.Sprintf("request_accept(%s-request of %s, identity=%s, writer)", r.state, who.Name, other.Name), target: other.Name, perm: list.AclPermissionsWriter, hasPerm: true})
			add(&item{kind: "request_decline-of-" + r.state + "-request", author: a, cv: aclgen.CRequestDecline(r.id), desc: fmt.Sprintf("request_decline(%s-request of %s)", r.state, who.Name), target: who.Name})
			add(&item{kind: "request_cancel-of-" + r.state + "-request", author: a, cv: aclgen.CRequestCancel(r.id), desc: fmt.Sprintf("request_cancel(%s-request of %s)", r.state, who.Name), target: who.Name})
		}
		add(&item{kind: "request_remove", author: a, cv: aclgen.CRequestRemove(), desc: "request_remove()", target: a.Name})
		add(&item{kind: "read_key_change", author: a, cv: aclgen.CReadKeyChange(kit.ReadKeyChange(active, anyoneInvites)), desc: "read_key_change(all members)"})
		if len(active) > 1 {
			add(&item{kind: "read_key_change-omitting-a-member", author: a, cv: aclgen.CReadKeyChange(kit.ReadKeyChange(active[1:], anyoneInvites)), desc: "read_key_change(one member omitted)"})
		}
		add(&item{kind: "options_change", author: a, cv: aclgen.COptions(true), desc: "options_change(deleteRestricted=true)"})
		add(&item{kind: "options_change", author: a, cv: aclgen.COptions(false), desc: "options_change(deleteRestricted=false)"})
		add(&item{kind: "empty", author: a, cv: aclgen.CEmpty(), desc: "empty content"})
	}
	return out
}

func without2(all []crypto.PubKey, a, b crypto.PubKey) []crypto.PubKey {
	var r []crypto.PubKey
	for _, p := range all {
		if !p.Equals(a) && !p.Equals(b) {
			r = append(r, p)
		}
	}
	return r
}

func sortedKeys(m map[string]string) []string {
	out := make([]string, 0, len(m))
	for k := range m {
		out = append(out, k)
	}
	sort.Strings(out)
	return out
}

var _ = strings.Join
