package c13

import (
	"context"
	"fmt"

	"github.com/anyproto/any-sync/commonspace/object/accountdata"
	"github.com/anyproto/any-sync/commonspace/object/acl/list"
	"github.com/anyproto/any-sync/commonspace/object/acl/recordverifier"
	"github.com/anyproto/any-sync/commonspace/spacepayloads"
	"github.com/anyproto/any-sync/consensus/consensusproto"
	"github.com/anyproto/any-sync/util/crypto"

	"verifharness/lib"
)

type keyView struct {
	built    bool
	err      string
	hasEntry bool
	read     []byte
	metaPriv []byte
	metaPub  []byte
	curRead  []byte
	curErr   string
	isO2O    bool
	perms    map[string]string
}

// viewOf builds the real ACL list of `who` from the given root and extracts the key material it holds.
func viewOf(who crypto.PrivKey, root *consensusproto.RawRecordWithId) keyView {
	v := keyView{perms: map[string]string{}}
	st, err := list.NewInMemoryStorage(root.Id, []*consensusproto.RawRecordWithId{{Payload: clone(root.Payload), Id: root.Id}})
	if err != nil {
		v.err = err.Error()
		return v
	}
	acc := &accountdata.AccountKeys{SignKey: who, PeerKey: who, PeerId: who.GetPublic().PeerId()}
	l, err := list.BuildAclListWithIdentity(acc, st, recordverifier.NewValidateFull())
	if err != nil {
		v.err = err.Error()
		return v
	}
	v.built = true
	s := l.AclState()
	v.isO2O = s.IsOneToOne()
	if k, ok := s.Keys()[root.Id]; ok {
		v.hasEntry = true
		if k.ReadKey != nil {
			v.read, _ = k.ReadKey.Raw()
		}
		if k.MetadataPrivKey != nil {
			v.metaPriv, _ = k.MetadataPrivKey.Raw()
		}
		if k.MetadataPubKey != nil {
			v.metaPub, _ = k.MetadataPubKey.Raw()
		}
	}
	if rk, err := s.CurrentReadKey(); err != nil {
		v.curErr = err.Error()
	} else if rk != nil {
		v.curRead, _ = rk.Raw()
	}
	for _, a := range s.CurrentAccounts() {
		v.perms[fmt.Sprintf("%x", a.PubKey.Storage())] = fmt.Sprint(a.Permissions)
	}
	return v
}

func runOneToOne(c *lib.Case) {
	a, b, x := edKey(c), edKey(c), edKey(c)
	types := []string{spacepayloads.SpaceTypeOneToOne, spacepayloads.SpaceTypeOneToOneAny}
	ids := map[string]string{}
	for ti, typ := range types {
		tn := []string{"anytype", "any"}[ti]
		build := func(sk crypto.PrivKey, pk crypto.PubKey) (parts, error) {
			var (
				p   = spacepayloads.StoragePayloadForOneToOneSpaceWithType
				err error
			)
			if ti == 0 && c.Rng.Intn(2) == 0 {
				// the legacy entry point
				pl, e := spacepayloads.StoragePayloadForOneToOneSpace(sk, pk)
				if e != nil {
					return parts{}, e
				}
				return fromPayload(pl), nil
			}
			pl, err := p(sk, pk, typ)
			if err != nil {
				return parts{}, err
			}
			return fromPayload(pl), nil
		}
		pab, err1 := build(a, b.GetPublic())
		pba, err2 := build(b, a.GetPublic())
		if err1 != nil || err2 != nil {
			c.Violation("onetoone:constructor-error:"+tn, "one-to-one constructor failed on well-formed keys", fmt.Sprint(err1, err2))
			return
		}
		c.Eval(1)
		detail := func() map[string]any {
			return map[string]any{"type": typ, "a_pub": fmt.Sprintf("%x", a.GetPublic().Storage()), "b_pub": fmt.Sprintf("%x", b.GetPublic().Storage()),
				"a_side": pab.witness(), "b_side": pba.witness()}
		}
		// both sides validate
		for side, p := range map[string]parts{"a": pab, "b": pba} {
			if err := spacepayloads.ValidateSpaceStorageCreatePayload(p.payload()); err != nil {
				d := detail()
				d["err"] = err.Error()
				c.Violation("reject-valid:validate:onetoone-"+tn, "a one-to-one payload does not validate ("+side+" side)", d)
			}
		}
		// symmetry of ids and roots
		if pab.hdrId != pba.hdrId || string(pab.hdrRaw) != string(pba.hdrRaw) {
			c.Violation("onetoone:asymmetric:space-id:"+tn, "the two parties derive different space ids / headers", detail())
		}
		if pab.aclId != pba.aclId || string(pab.aclRaw) != string(pba.aclRaw) {
			c.Violation("onetoone:asymmetric:acl-root:"+tn, "the two parties derive different ACL roots", detail())
		}
		if pab.setId != pba.setId || string(pab.setRaw) != string(pba.setRaw) {
			c.Violation("onetoone:asymmetric:settings-root:"+tn, "the two parties derive different settings roots", detail())
		}
		ids[tn] = pab.hdrId
		c.Count("onetoone.pairs_compared."+tn, 1)

		// keys held by each party's real ACL state
		rootAB := &consensusproto.RawRecordWithId{Payload: pab.aclRaw, Id: pab.aclId}
		rootBA := &consensusproto.RawRecordWithId{Payload: pba.aclRaw, Id: pba.aclId}
		va, vb := viewOf(a, rootAB), viewOf(b, rootBA)
		// and each party's state built from the OTHER party's root (what it receives over the network)
		vaFromB, vbFromA := viewOf(a, rootBA), viewOf(b, rootAB)
		kd := func() map[string]any {
			d := detail()
			d["a_view"] = map[string]any{"built": va.built, "err": va.err, "read": fmt.Sprintf("%x", va.read), "meta": fmt.Sprintf("%x", va.metaPriv)}
			d["b_view"] = map[string]any{"built": vb.built, "err": vb.err, "read": fmt.Sprintf("%x", vb.read), "meta": fmt.Sprintf("%x", vb.metaPriv)}
			return d
		}
		for _, v := range []keyView{va, vb, vaFromB, vbFromA} {
			if !v.built {
				c.Violation("onetoone:party-cannot-build-acl:"+tn, "a party cannot build the ACL state of its own one-to-one space", kd())
				return
			}
		}
		if len(va.read) == 0 || len(va.metaPriv) == 0 || len(vb.read) == 0 || len(vb.metaPriv) == 0 {
			c.Violation("onetoone:party-without-keys:"+tn, "a party's ACL state holds no read / metadata key for its own one-to-one space", kd())
		} else {
			c.Count("onetoone.key_sets_derived", 2)
		}
		for _, pair := range [][2]keyView{{va, vb}, {va, vaFromB}, {vb, vbFromA}} {
			if string(pair[0].read) != string(pair[1].read) || string(pair[0].curRead) != string(pair[1].curRead) {
				c.Violation("onetoone:asymmetric:read-key:"+tn, "the two parties hold different read keys", kd())
				break
			}
			if string(pair[0].metaPriv) != string(pair[1].metaPriv) || string(pair[0].metaPub) != string(pair[1].metaPub) {
				c.Violation("onetoone:asymmetric:metadata-key:"+tn, "the two parties hold different metadata keys", kd())
				break
			}
		}
		if string(va.curRead) != string(va.read) {
			c.Violation("onetoone:current-read-key:"+tn, "CurrentReadKey is not the derived read key", kd())
		}

		// third parties
		third := map[string][2]crypto.PrivKey{"x-with-A": {x, a}, "x-with-B": {x, b}}
		for nm, pr := range third {
			px, err := build(pr[0], pr[1].GetPublic())
			if err != nil {
				c.Violation("onetoone:constructor-error:"+tn, "one-to-one constructor failed on well-formed keys", err.Error())
				continue
			}
			// and the mirror (a with X): must equal px, and differ from pab
			pm, err := build(pr[1], pr[0].GetPublic())
			if err == nil && (pm.hdrId != px.hdrId || pm.aclId != px.aclId || pm.setId != px.setId) {
				c.Violation("onetoone:asymmetric:space-id:"+tn, "the two parties derive different ids ("+nm+")", map[string]any{"one": px.witness(), "other": pm.witness()})
			}
			c.Count("onetoone.third_party_pairs", 1)
			if px.hdrId == pab.hdrId || px.aclId == pab.aclId || px.setId == pab.setId ||
				string(px.hdrRaw) == string(pab.hdrRaw) || string(px.aclRaw) == string(pab.aclRaw) || string(px.setRaw) == string(pab.setRaw) {
				d := detail()
				d["third"] = px.witness()
				c.Violation("onetoone:third-party-derives-same:"+tn, "another key pair derives the same space id / root ("+nm+")", d)
			}
			vx := viewOf(pr[0], &consensusproto.RawRecordWithId{Payload: px.aclRaw, Id: px.aclId})
			if len(vx.read) > 0 && (string(vx.read) == string(va.read) || string(vx.metaPriv) == string(va.metaPriv)) {
				c.Violation("onetoone:third-party-derives-same-keys:"+tn, "another key pair derives the same keys ("+nm+")", detail())
			}
		}
		// x looks at the (a,B) root
		vx := viewOf(x, rootAB)
		c.Count("onetoone.outsider_views", 1)
		if vx.built {
			c.Count("onetoone.outsider_view_built", 1)
			if len(vx.read) > 0 || len(vx.metaPriv) > 0 || len(vx.curRead) > 0 {
				d := detail()
				d["outsider_read"] = fmt.Sprintf("%x", vx.read)
				d["outsider_meta"] = fmt.Sprintf("%x", vx.metaPriv)
				c.Violation("onetoone:outsider-holds-keys:"+tn, "a view built by a third party from the (a,B) root holds keys", d)
			}
		} else {
			c.Count("onetoone.outsider_view_refused", 1)
		}
		// the permissions in both parties' states agree (owner = shared key, two writers)
		if fmt.Sprint(va.perms) != fmt.Sprint(vb.perms) || len(va.perms) != 3 {
			c.Count("info.onetoone.permission_maps_differ_or_unexpected_size", 1)
		}
	}
	if ids["anytype"] == ids["any"] {
		c.Count("info.onetoone.both_types_same_id", 1)
	} else {
		c.Count("info.onetoone.types_give_distinct_ids", 1)
	}
	// the service entry point of both parties
	fa, err1 := newFixture(c.TmpDir+"/a", account(c), c.Index%2)
	fb, err2 := newFixture(c.TmpDir+"/b", account(c), 0)
	if err1 == nil && err2 == nil {
		ida, ea := fa.svc.DeriveOneToOneSpace(context.Background(), a, b.GetPublic())
		idb, eb := fb.svc.DeriveOneToOneSpace(context.Background(), b, a.GetPublic())
		if ea != nil || eb != nil {
			c.Violation("reject-valid:create:onetoone-anytype", "DeriveOneToOneSpace rejected the payload it built itself", fmt.Sprint(ea, eb))
		} else if ida != idb || ida != ids["anytype"] {
			c.Violation("onetoone:asymmetric:space-id:service", "DeriveOneToOneSpace of the two parties returns different ids", map[string]any{"a": ida, "b": idb, "constructor": ids["anytype"]})
		} else {
			c.Count("onetoone.service_derivations_compared", 1)
		}
	}
	if fa != nil {
		fa.close()
	}
	if fb != nil {
		fb.close()
	}
	c.Nontrivial(fmt.Sprintf("%x|%x|%x", a.GetPublic().Storage(), b.GetPublic().Storage(), x.GetPublic().Storage()))
}
