package c13

import (
	"bytes"
	"fmt"

	"github.com/anyproto/any-sync/commonspace/spacesyncproto"
	"github.com/anyproto/any-sync/util/crypto"

	"verifharness/lib"
)

// bound: does the offered header commit to the offered roots in one of the two
// ways the property names - directly (the header embeds exactly these root
// payloads) or through the space id (both roots name exactly the offered space
// id)? A payload for which neither holds names more than one space (or none)
// and must be rejected whoever signed its header.
func bound(p parts) (direct, named bool, err error) {
	d, err := decode(p)
	if err != nil {
		return false, false, err
	}
	direct = len(d.h.AclPayload) > 0 && len(d.h.SettingPayload) > 0 && bytes.Equal(d.h.AclPayload, p.aclRaw) && bytes.Equal(d.h.SettingPayload, p.setRaw)
	named = d.ar.SpaceId != "" && d.ar.SpaceId == p.hdrId && d.rc.SpaceId == p.hdrId
	return
}

var oddVersions = []int32{2, 3, 100, -1, 1 << 20}

func signedHeader(h *spacesyncproto.SpaceHeader, key crypto.PrivKey) (raw []byte, id string) {
	signed := must(h.MarshalVT())
	sig, err := key.Sign(signed)
	if err != nil {
		panic(err)
	}
	raw = must((&spacesyncproto.RawSpaceHeader{SpaceHeader: signed, Signature: sig}).MarshalVT())
	return raw, cidOf(raw) + "." + fmtRepl(h.ReplicationKey)
}

// resigned: headers that carry a GENUINE fresh signature, offered with roots they do not commit to.
//   - the owner edits one field of his own header and signs it again: a new space id, and the
//     old roots (which name the old id, or are embedded in the old header only) are offered with it;
//   - a third party signs a header of his own (every version value, also ones the enum does not
//     name - the field is an open proto3 enum) and offers it with the victim's roots.
//
// Both signatures and all three content hashes verify, so the only thing left to reject the
// payload is the binding header <-> roots, which is what the property is about.
func resigned(c *lib.Case, fx *fixture, ctor int, ks keyset, o parts) {
	name := ctorNames[ctor]
	d0, err := decode(o)
	if err != nil {
		c.Inconclusive("resigned: " + err.Error())
		return
	}
	try := func(class string, h *spacesyncproto.SpaceHeader, key crypto.PrivKey) {
		raw, id := signedHeader(h, key)
		if id == o.hdrId {
			return
		}
		p := o
		p.hdrRaw, p.hdrId = raw, id
		direct, named, err := bound(p)
		if err != nil {
			c.Inconclusive("resigned: " + err.Error())
			return
		}
		useFx := fx
		if c.Rng.Intn(2) == 0 {
			useFx = nil
		}
		res := offer(c, useFx, p, false)
		c.Eval(1)
		if direct || named {
			// a different, self-consistent space that legitimately commits to the same roots
			c.Count("resigned.bound."+class+"."+verdictWord(res), 1)
			return
		}
		c.Count("resigned.unbound."+name+"."+verdictWord(res), 1)
		c.Count("resigned.unbound.class."+class+"."+verdictWord(res), 1)
		judge(c, res, "reject", name+":resigned:"+class, "a genuinely signed header offered with roots it neither embeds nor is named by ("+class+")", func() map[string]any {
			return map[string]any{"constructor": name, "class": class, "header_version": int32(h.Version), "original": o.witness(), "offered": p.witness()}
		})
	}
	ownerPub, _ := ks.sign.GetPublic().Marshall()
	if bytes.Equal(d0.h.Identity, ownerPub) {
		edits := []struct {
			name string
			f    func(h *spacesyncproto.SpaceHeader)
		}{
			{"timestamp+1", func(h *spacesyncproto.SpaceHeader) { h.Timestamp++ }},
			{"spaceType+x", func(h *spacesyncproto.SpaceHeader) { h.SpaceType += "x" }},
			{"seed=flip", func(h *spacesyncproto.SpaceHeader) { h.Seed = flip(c, h.Seed) }},
			{"spaceHeaderPayload=flip", func(h *spacesyncproto.SpaceHeader) { h.SpaceHeaderPayload = flip(c, h.SpaceHeaderPayload) }},
			{"replicationKey+1", func(h *spacesyncproto.SpaceHeader) { h.ReplicationKey++ }},
			{"fileprotoVersion", func(h *spacesyncproto.SpaceHeader) { h.FileprotoVersion ^= 2 }},
			{"version-toggled", func(h *spacesyncproto.SpaceHeader) { h.Version ^= 1 }},
			{"version-toggled,embedded-cleared", func(h *spacesyncproto.SpaceHeader) {
				h.Version ^= 1
				h.AclPayload, h.SettingPayload = nil, nil
			}},
			{"aclPayload=flip", func(h *spacesyncproto.SpaceHeader) { h.AclPayload = flip(c, h.AclPayload) }},
			{"settingPayload=flip", func(h *spacesyncproto.SpaceHeader) { h.SettingPayload = flip(c, h.SettingPayload) }},
		}
		for _, e := range edits {
			d, _ := decode(o)
			e.f(&d.h)
			try("owner:"+e.name, &d.h, ks.sign)
		}
		for _, v := range oddVersions {
			d, _ := decode(o)
			d.h.Version = spacesyncproto.SpaceHeaderVersion(v)
			try(fmt.Sprintf("owner:version=%d", v), &d.h, ks.sign)
			d, _ = decode(o)
			d.h.Version = spacesyncproto.SpaceHeaderVersion(v)
			d.h.AclPayload, d.h.SettingPayload = nil, nil
			try(fmt.Sprintf("owner:version=%d,embedded-cleared", v), &d.h, ks.sign)
		}
		c.Count("resigned.owner-key-available."+name, 1)
	} else {
		c.Count("resigned.owner-key-not-the-header-signer."+name, 1)
	}
	// a third party's own header, every version value, offered with the victim's roots
	att := edKey(c)
	attPub, _ := att.GetPublic().Marshall()
	for _, v := range append([]int32{0, 1}, oddVersions...) {
		h := &spacesyncproto.SpaceHeader{Identity: attPub, SpaceType: "third.party", ReplicationKey: uint64(c.Rng.Int63()), Timestamp: 1700000000 + c.Rng.Int63n(1<<20),
			Seed: randBytes(c, 32), Version: spacesyncproto.SpaceHeaderVersion(v)}
		try(fmt.Sprintf("third-party:version=%d", v), h, att)
		// the same, but copying every unsigned-by-the-victim field of the victim's header
		d, _ := decode(o)
		h2 := d.h
		h2.Identity, h2.Version, h2.AclPayload, h2.SettingPayload = attPub, spacesyncproto.SpaceHeaderVersion(v), nil, nil
		try(fmt.Sprintf("third-party:victim-fields,version=%d", v), &h2, att)
	}
}
