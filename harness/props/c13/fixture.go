package c13

import (
	"context"
	"errors"
	"fmt"
	"os"
	"path/filepath"

	anystore "github.com/anyproto/any-store"
	"storj.io/drpc"

	"github.com/anyproto/any-sync/accountservice"
	"github.com/anyproto/any-sync/app"
	"github.com/anyproto/any-sync/commonspace"
	"github.com/anyproto/any-sync/commonspace/config"
	"github.com/anyproto/any-sync/commonspace/object/accountdata"
	"github.com/anyproto/any-sync/commonspace/object/treemanager"
	"github.com/anyproto/any-sync/commonspace/object/treesyncer"
	"github.com/anyproto/any-sync/commonspace/peermanager"
	"github.com/anyproto/any-sync/commonspace/spacestorage"
	"github.com/anyproto/any-sync/commonspace/spacesyncproto"
	"github.com/anyproto/any-sync/commonspace/syncstatus"
	"github.com/anyproto/any-sync/net/peer"
	"github.com/anyproto/any-sync/net/pool"
	"github.com/anyproto/any-sync/nodeconf"
)

// fixture: a real commonspace.SpaceService in an app container whose
// collaborators are harness stubs. It exposes the two network-facing
// acceptance paths without a network:
//
//	push: NewSpace with a SpaceDescription in the context (what a node does
//	      with a SpacePush request) -> addSpaceStorage -> createSpaceStorage
//	pull: NewSpace for an unknown id -> getSpaceStorageFromRemote ->
//	      spacePullWithPeer (the response is served by a harness drpc.Conn)
//	      -> createSpaceStorage
//
// "accepted" = the storage provider was asked to create the storage.
type fixture struct {
	a    *app.App
	svc  commonspace.SpaceService
	sp   *storageProvider
	pull *spacesyncproto.SpacePullResponse // what the fake peer answers
}

type cfgStub struct{}

func (cfgStub) Init(*app.App) error     { return nil }
func (cfgStub) Name() string            { return "config" }
func (cfgStub) GetSpace() config.Config { return config.Config{GCTTL: 60, SyncPeriod: 600} }

type accStub struct{ acc *accountdata.AccountKeys }

func (s *accStub) Init(*app.App) error               { return nil }
func (s *accStub) Name() string                      { return accountservice.CName }
func (s *accStub) Account() *accountdata.AccountKeys { return s.acc }

type nodeconfStub struct{ nodeconf.Service }

func (nodeconfStub) Init(*app.App) error                   { return nil }
func (nodeconfStub) Name() string                          { return nodeconf.CName }
func (nodeconfStub) Run(context.Context) error             { return nil }
func (nodeconfStub) Close(context.Context) error           { return nil }
func (nodeconfStub) IsResponsible(string) bool             { return false }
func (nodeconfStub) Configuration() nodeconf.Configuration { return nodeconf.Configuration{} }

type treeMgrStub struct{ treemanager.TreeManager }

func (treeMgrStub) Init(*app.App) error         { return nil }
func (treeMgrStub) Name() string                { return treemanager.CName }
func (treeMgrStub) Run(context.Context) error   { return nil }
func (treeMgrStub) Close(context.Context) error { return nil }

type poolStub struct{ pool.Pool }

func (poolStub) Init(*app.App) error { return nil }
func (poolStub) Name() string        { return pool.CName }

type syncStatusStub struct{ syncstatus.StatusUpdater }

func (syncStatusStub) Init(*app.App) error { return nil }
func (syncStatusStub) Name() string        { return syncstatus.CName }

type treeSyncerStub struct{ treesyncer.TreeSyncer }

func (treeSyncerStub) Init(*app.App) error         { return nil }
func (treeSyncerStub) Name() string                { return treesyncer.CName }
func (treeSyncerStub) Run(context.Context) error   { return nil }
func (treeSyncerStub) Close(context.Context) error { return nil }

type pmProvider struct{ fx *fixture }

func (p *pmProvider) Init(*app.App) error { return nil }
func (p *pmProvider) Name() string        { return peermanager.CName }
func (p *pmProvider) NewPeerManager(ctx context.Context, spaceId string) (peermanager.PeerManager, error) {
	return &pmStub{fx: p.fx}, nil
}

type pmStub struct {
	peermanager.PeerManager
	fx *fixture
}

func (p *pmStub) Init(*app.App) error { return nil }
func (p *pmStub) Name() string        { return peermanager.CName }
func (p *pmStub) GetResponsiblePeers(ctx context.Context) ([]peer.Peer, error) {
	return []peer.Peer{&fakePeer{fx: p.fx}}, nil
}

type fakePeer struct {
	peer.Peer
	fx *fixture
}

func (p *fakePeer) Id() string { return "verif-fake-node" }
func (p *fakePeer) DoDrpc(ctx context.Context, do func(conn drpc.Conn) error) error {
	return do(&fakeConn{fx: p.fx})
}

type fakeConn struct{ fx *fixture }

func (c *fakeConn) Close() error            { return nil }
func (c *fakeConn) Closed() <-chan struct{} { return nil }
func (c *fakeConn) NewStream(ctx context.Context, rpc string, enc drpc.Encoding) (drpc.Stream, error) {
	return nil, errors.New("no streams in the harness")
}

// Invoke answers SpacePull with the prepared response, through the real wire encoding.
func (c *fakeConn) Invoke(ctx context.Context, rpc string, enc drpc.Encoding, in, out drpc.Message) error {
	if rpc != "/spacesync.SpaceSync/SpacePull" {
		return fmt.Errorf("unexpected rpc %s", rpc)
	}
	if c.fx.pull == nil {
		return errors.New("no response prepared")
	}
	b, err := enc.Marshal(c.fx.pull)
	if err != nil {
		return err
	}
	return enc.Unmarshal(b, out)
}

// storageProvider.real: how many accepted payloads of this fixture are really written with spacestorage.Create
// on a fresh any-store database and read back (opening a database costs ~0.1-0.5 s).

// lightStorage stands in for the storage of further accepted payloads.
type lightStorage struct {
	spacestorage.SpaceStorage
	id string
}

func (l *lightStorage) Init(*app.App) error         { return nil }
func (l *lightStorage) Name() string                { return spacestorage.CName }
func (l *lightStorage) Run(context.Context) error   { return nil }
func (l *lightStorage) Close(context.Context) error { return nil }
func (l *lightStorage) Id() string                  { return l.id }

type storageProvider struct {
	dir      string
	real     int
	realDone int
	n        int
	created  []spacestorage.SpaceStorageCreatePayload
	dbs      []anystore.DB
	lastSt   spacestorage.SpaceStorage
	lastErr  error
}

func (s *storageProvider) Init(*app.App) error { return nil }
func (s *storageProvider) Name() string        { return spacestorage.CName }
func (s *storageProvider) WaitSpaceStorage(ctx context.Context, id string) (spacestorage.SpaceStorage, error) {
	return nil, spacestorage.ErrSpaceStorageMissing
}
func (s *storageProvider) SpaceExists(id string) bool { return false }
func (s *storageProvider) CreateSpaceStorage(ctx context.Context, payload spacestorage.SpaceStorageCreatePayload) (spacestorage.SpaceStorage, error) {
	s.created = append(s.created, payload)
	s.n++
	if s.n > s.real {
		// acceptance is already recorded; a real database for every accepted payload only costs I/O
		s.lastSt, s.lastErr = &lightStorage{id: payload.SpaceHeaderWithId.Id}, nil
		return s.lastSt, nil
	}
	s.realDone++
	_ = os.MkdirAll(s.dir, 0o755)
	db, err := anystore.Open(ctx, filepath.Join(s.dir, fmt.Sprintf("space%d.db", s.n)), &anystore.Config{SQLiteConnectionOptions: map[string]string{"synchronous": "off"}})
	if err != nil {
		s.lastErr = err
		return nil, err
	}
	s.dbs = append(s.dbs, db)
	st, err := spacestorage.Create(ctx, db, payload)
	s.lastSt, s.lastErr = st, err
	return st, err
}

func newFixture(dir string, acc *accountdata.AccountKeys, real int) (*fixture, error) {
	fx := &fixture{a: new(app.App), svc: commonspace.New(), sp: &storageProvider{dir: dir, real: real}}
	fx.a.Register(cfgStub{}).
		Register(&accStub{acc: acc}).
		Register(fx.sp).
		Register(nodeconfStub{}).
		Register(treeMgrStub{}).
		Register(&pmProvider{fx: fx}).
		Register(poolStub{}).
		Register(fx.svc)
	if err := fx.a.Start(context.Background()); err != nil {
		return nil, err
	}
	return fx, nil
}

func (fx *fixture) close() {
	for _, db := range fx.sp.dbs {
		_ = db.Close()
	}
	fx.sp.dbs = nil
	_ = fx.a.Close(context.Background())
}

func (fx *fixture) deps() commonspace.Deps {
	return commonspace.Deps{SyncStatus: syncStatusStub{}, TreeSyncer: treeSyncerStub{}}
}

// verdict of one entry point
type verdict struct {
	accepted bool
	err      error
	// storedOK: for accepted payloads, the created storage holds exactly the offered parts
	storedOK  bool
	storedWhy string
}

func (fx *fixture) after(p parts, before int, sp commonspace.Space, err error) verdict {
	v := verdict{err: err}
	created := len(fx.sp.created) > before
	v.accepted = created && err == nil
	if created && err != nil {
		// the provider was reached (so validation accepted) but something after it failed
		v.accepted = true
		v.storedWhy = "storage creation failed after validation: " + err.Error()
		return v
	}
	if v.accepted {
		v.storedOK, v.storedWhy = checkStored(fx.sp.lastSt, p)
	}
	return v
}

func checkStored(st spacestorage.SpaceStorage, p parts) (bool, string) {
	if st == nil {
		return false, "no storage"
	}
	if _, ok := st.(*lightStorage); ok {
		return true, ""
	}
	ctx := context.Background()
	state, err := st.StateStorage().GetState(ctx)
	if err != nil {
		return false, "state: " + err.Error()
	}
	if state.SpaceId != p.hdrId || string(state.SpaceHeader) != string(p.hdrRaw) || state.AclId != p.aclId || state.SettingsId != p.setId || st.Id() != p.hdrId {
		return false, fmt.Sprintf("state differs from the accepted payload: %+v", state)
	}
	aclSt, err := st.AclStorage()
	if err != nil {
		return false, "acl storage: " + err.Error()
	}
	root, err := aclSt.Root(ctx)
	if err != nil {
		return false, "acl root: " + err.Error()
	}
	if root.Id != p.aclId || string(root.RawRecord) != string(p.aclRaw) {
		return false, "stored acl root differs from the accepted one"
	}
	ts, err := st.TreeStorage(ctx, p.setId)
	if err != nil {
		return false, "settings storage: " + err.Error()
	}
	sroot, err := ts.Root(ctx)
	if err != nil {
		return false, "settings root: " + err.Error()
	}
	if sroot.Id != p.setId || string(sroot.RawChange) != string(p.setRaw) {
		return false, "stored settings root differs from the accepted one"
	}
	return true, ""
}

// push: the path a node takes for an incoming SpacePush.
func (fx *fixture) push(p parts) verdict {
	desc := commonspace.SpaceDescription{
		SpaceHeader:          p.header(),
		AclId:                p.aclId,
		AclPayload:           clone(p.aclRaw),
		SpaceSettingsId:      p.setId,
		SpaceSettingsPayload: clone(p.setRaw),
	}
	ctx := context.WithValue(context.Background(), commonspace.AddSpaceCtxKey, desc)
	before := len(fx.sp.created)
	sp, err := fx.svc.NewSpace(ctx, p.hdrId, fx.deps())
	return fx.after(p, before, sp, err)
}

// pullFrom: the path a client takes when it opens a space it does not have;
// the responsible node answers with the given parts.
func (fx *fixture) pullFrom(p parts) verdict {
	fx.pull = &spacesyncproto.SpacePullResponse{Payload: &spacesyncproto.SpacePayload{
		SpaceHeader:            p.header(),
		AclPayload:             clone(p.aclRaw),
		AclPayloadId:           p.aclId,
		SpaceSettingsPayload:   clone(p.setRaw),
		SpaceSettingsPayloadId: p.setId,
	}}
	before := len(fx.sp.created)
	sp, err := fx.svc.NewSpace(context.Background(), p.hdrId, fx.deps())
	fx.pull = nil
	return fx.after(p, before, sp, err)
}
