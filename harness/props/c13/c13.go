// Package c13: the space id binds header, ACL root and settings root; the
// one-to-one derivation is symmetric. Real constructor outputs are mutated
// (bytes, id characters, protobuf fields with re-hashed ids, suffixes,
// cross-combinations of two valid spaces) and offered to every acceptance
// entry point reachable without a network: ValidateSpaceStorageCreatePayload,
// ValidateSpaceHeader, and the push / pull paths of the real SpaceService
// (which end in spacestorage.Create on a real any-store database).
package c13

import (
	"crypto/ed25519"
	"fmt"
	"os"
	"runtime"
	"strconv"
	"strings"
	"time"

	"github.com/anyproto/any-sync/app/logger"
	"github.com/anyproto/any-sync/commonspace/object/accountdata"
	"github.com/anyproto/any-sync/commonspace/object/acl/aclrecordproto"
	"github.com/anyproto/any-sync/commonspace/object/tree/treechangeproto"
	"github.com/anyproto/any-sync/commonspace/spacepayloads"
	"github.com/anyproto/any-sync/commonspace/spacestorage"
	"github.com/anyproto/any-sync/commonspace/spacesyncproto"
	"github.com/anyproto/any-sync/consensus/consensusproto"
	"github.com/anyproto/any-sync/util/crypto"

	"verifharness/lib"
)

func init() {
	logger.SetNamedLevels([]logger.NamedLevel{{Name: "*", Level: "fatal"}})
	for _, a := range os.Args {
		if a == "-worker" {
			runtime.GOMAXPROCS(2)
		}
	}
}

type Prop struct{}

func (Prop) ID() string    { return "C13" }
func (Prop) Level() string { return "exploration" }
func (Prop) Rule() string {
	return "mutants: for each of the 6 constructors (create v0/v1, derive v0/v1, one-to-one anytype/any) x K key sets (quick 12, thorough 200): the unmodified output must be accepted by every entry point; then every byte position (quick: every 3rd, PRNG offset) of raw header / ACL root / settings root is XOR-ed with a non-zero byte, once with ids kept and once with the content id re-hashed; every character of the three ids is replaced; suffix edits; single-field protobuf edits of SpaceHeader, RawSpaceHeader, AclRoot, RawRecord, RootChange, RawTreeChange with ids re-hashed and signatures kept; re-encodings; truncations. A mutant whose three (signed bytes, signature) pairs decode to the originals and whose ids are the correct hashes of its raw bytes is 'equivalent' and not judged; every other mutant must be rejected by every entry point. cross: every ordered constructor pair (36) x {different owners, same owner} x reps: all 62 non-trivial selections of the 6 components (3 raw parts, 3 ids) from two valid spaces must be rejected unless the selection is byte-identical to one of the two spaces. onetoone: key triples (a,b,c) x both types. resigned (inside every mutants case): headers with a GENUINE fresh signature - the owner's own header with one field edited (incl. version values outside the enum: 2, 3, 100, -1, 2^20) and signed again, and a third party's own header of every version value - offered with the original roots; whenever the offered header neither embeds exactly the offered roots nor is named by both of them, every entry point must reject. A case is non-trivial when its baseline was accepted by all entry points and at least one non-equivalent mutant was judged; distinct = (constructor, key material)."
}
func (Prop) Assumptions() []string {
	return []string{
		"the attacker can re-hash (content ids are public functions of bytes) but holds no private key of the space owner; the byte/field/id mutants never carry a fresh owner signature; the 'resigned' sub-step models the owner himself (or a third party with his own key) signing a different header and is judged only on the header<->roots binding",
		"a mutant that decodes to the same signed header / ACL record / settings change with the same signatures, only re-encoded (and therefore re-hashed), is semantically the same space content and is not required to be rejected (counted as equivalent.*)",
		"roots or headers freshly signed by a third party's own key (forged v0 roots naming the victim's space id; a foreign v1 header embedding the victim's roots) are outside the property's quantifier; they are probed and counted under info.* only - see FINDINGS.md",
		"create constructors read crypto/rand and the clock, so replaying a case reproduces the structure (keys, positions, classes) but not the random seed / timestamp bytes; witnesses carry the full payloads",
	}
}

// ---------------------------------------------------------------- parts

// parts is the harness view of a create / push / pull payload.
type parts struct {
	hdrRaw []byte
	hdrId  string
	aclRaw []byte
	aclId  string
	setRaw []byte
	setId  string
}

func clone(b []byte) []byte {
	if b == nil {
		return nil
	}
	return append([]byte{}, b...)
}

func fromPayload(p spacestorage.SpaceStorageCreatePayload) parts {
	return parts{
		hdrRaw: clone(p.SpaceHeaderWithId.RawHeader), hdrId: p.SpaceHeaderWithId.Id,
		aclRaw: clone(p.AclWithId.Payload), aclId: p.AclWithId.Id,
		setRaw: clone(p.SpaceSettingsWithId.RawChange), setId: p.SpaceSettingsWithId.Id,
	}
}

func (p parts) header() *spacesyncproto.RawSpaceHeaderWithId {
	return &spacesyncproto.RawSpaceHeaderWithId{RawHeader: clone(p.hdrRaw), Id: p.hdrId}
}

func (p parts) payload() spacestorage.SpaceStorageCreatePayload {
	return spacestorage.SpaceStorageCreatePayload{
		AclWithId:           &consensusproto.RawRecordWithId{Payload: clone(p.aclRaw), Id: p.aclId},
		SpaceHeaderWithId:   p.header(),
		SpaceSettingsWithId: &treechangeproto.RawTreeChangeWithId{RawChange: clone(p.setRaw), Id: p.setId},
	}
}

func (p parts) same(q parts) bool {
	return p.hdrId == q.hdrId && p.aclId == q.aclId && p.setId == q.setId &&
		string(p.hdrRaw) == string(q.hdrRaw) && string(p.aclRaw) == string(q.aclRaw) && string(p.setRaw) == string(q.setRaw)
}

func (p parts) witness() map[string]any {
	return map[string]any{
		"header_id": p.hdrId, "header_raw_hex": fmt.Sprintf("%x", p.hdrRaw),
		"acl_id": p.aclId, "acl_raw_hex": fmt.Sprintf("%x", p.aclRaw),
		"settings_id": p.setId, "settings_raw_hex": fmt.Sprintf("%x", p.setRaw),
	}
}

func suffixOf(id string) string {
	if i := strings.Index(id, "."); i >= 0 {
		return id[i+1:]
	}
	return ""
}

// ---------------------------------------------------------------- keys and constructors

type keyset struct {
	sign, master, meta crypto.PrivKey
	read               crypto.SymKey
	repl               uint64
	spaceType          string
	spacePayload       []byte
	metadata           []byte
	options            *aclrecordproto.AclSpaceOptions
	fileProto          spacesyncproto.SpaceFileProtoVersion
	peer               crypto.PrivKey // the other party for one-to-one
}

func edKey(c *lib.Case) crypto.PrivKey {
	seed := make([]byte, ed25519.SeedSize)
	c.Rng.Read(seed)
	return crypto.NewEd25519PrivKey(ed25519.NewKeyFromSeed(seed))
}

func randBytes(c *lib.Case, n int) []byte {
	b := make([]byte, n)
	c.Rng.Read(b)
	return b
}

func newKeyset(c *lib.Case) keyset {
	rk, err := crypto.UnmarshallAESKey(randBytes(c, 32))
	if err != nil {
		panic(err)
	}
	ks := keyset{sign: edKey(c), master: edKey(c), meta: edKey(c), read: rk, peer: edKey(c)}
	switch c.Rng.Intn(4) {
	case 0:
		ks.repl = uint64(c.Rng.Intn(36)) // one-character suffix
	case 1:
		ks.repl = 0
	default:
		ks.repl = c.Rng.Uint64()
	}
	ks.spaceType = []string{"test.space", "anytype.space", "x", "any.tech", "anytype.onetoone.not"}[c.Rng.Intn(5)]
	ks.spacePayload = randBytes(c, c.Rng.Intn(24))
	ks.metadata = randBytes(c, 1+c.Rng.Intn(16))
	if c.Rng.Intn(3) == 0 {
		ks.options = &aclrecordproto.AclSpaceOptions{DeleteRestricted: true}
	}
	if c.Rng.Intn(2) == 0 {
		ks.fileProto = spacesyncproto.SpaceFileProtoVersion_SpaceFileProtoVersionV2
	}
	return ks
}

var ctorNames = []string{"create-v0", "create-v1", "derive-v0", "derive-v1", "onetoone-anytype", "onetoone-any"}

func isV1(ctor int) bool { return ctor == 1 || ctor == 3 || ctor == 4 || ctor == 5 }

func construct(ctor int, ks keyset) (parts, error) {
	var (
		p   spacestorage.SpaceStorageCreatePayload
		err error
	)
	cp := spacepayloads.SpaceCreatePayload{SigningKey: ks.sign, SpaceType: ks.spaceType, ReplicationKey: ks.repl, SpacePayload: ks.spacePayload,
		MasterKey: ks.master, ReadKey: ks.read, MetadataKey: ks.meta, Metadata: ks.metadata, Options: ks.options, FileProtoVersion: ks.fileProto}
	dp := spacepayloads.SpaceDerivePayload{SigningKey: ks.sign, MasterKey: ks.master, SpaceType: ks.spaceType, SpacePayload: ks.spacePayload, FileProtoVersion: ks.fileProto}
	switch ctor {
	case 0:
		p, err = spacepayloads.StoragePayloadForSpaceCreate(cp)
	case 1:
		p, err = spacepayloads.StoragePayloadForSpaceCreateV1(cp)
	case 2:
		p, err = spacepayloads.StoragePayloadForSpaceDerive(dp)
	case 3:
		p, err = spacepayloads.StoragePayloadForSpaceDeriveV1(dp)
	case 4:
		p, err = spacepayloads.StoragePayloadForOneToOneSpace(ks.sign, ks.peer.GetPublic())
	case 5:
		p, err = spacepayloads.StoragePayloadForOneToOneSpaceWithType(ks.sign, ks.peer.GetPublic(), spacepayloads.SpaceTypeOneToOneAny)
	}
	if err != nil {
		return parts{}, err
	}
	return fromPayload(p), nil
}

func account(c *lib.Case) *accountdata.AccountKeys {
	return accountdata.New(edKey(c), edKey(c))
}

// ---------------------------------------------------------------- plan

func keysets(tier string) int {
	if tier == "thorough" {
		return 200
	}
	return 12
}

func crossReps(tier string) int {
	if tier == "thorough" {
		return 40
	}
	return 3
}

func (Prop) Plan(tier string) []lib.Workload {
	o2o := 60
	if tier == "thorough" {
		o2o = 2000
	}
	return []lib.Workload{
		{Name: "mutants", Cases: 6 * keysets(tier), MinNontrivial: 6 * keysets(tier) * 9 / 10, BatchTimeout: 40 * time.Minute},
		{Name: "cross", Cases: 36 * 2 * crossReps(tier), MinNontrivial: 36 * 2 * crossReps(tier) * 9 / 10, BatchTimeout: 40 * time.Minute},
		{Name: "onetoone", Cases: o2o, MinNontrivial: o2o * 9 / 10},
		{Name: "concurrent", Cases: o2o / 4, Race: true, MinNontrivial: o2o / 8},
	}
}

// seenKeys: the first violation of a key within a case is recorded with its witness, the others are counted
// (a broken check makes hundreds of mutants of one class pass; one witness per class and case is enough).
// Cases run sequentially inside a worker.
var seenKeys map[string]int

func violation(c *lib.Case, key, what string, detail func() map[string]any) {
	seenKeys[key]++
	if seenKeys[key] == 1 {
		c.Violation(key, what, detail())
	} else {
		c.Count("violations_beyond_first_per_case_and_key", 1)
	}
}

func (Prop) RunCase(c *lib.Case) {
	seenKeys = map[string]int{}
	switch c.Workload {
	case "mutants":
		runMutants(c)
	case "cross":
		runCross(c)
	case "onetoone":
		runOneToOne(c)
	case "concurrent":
		runConcurrent(c)
	}
}

// ---------------------------------------------------------------- entry points

const (
	epValidate = "validate" // spacepayloads.ValidateSpaceStorageCreatePayload
	epHeader   = "header"   // spacepayloads.ValidateSpaceHeader(header, nil, nil, nil)
	epPush     = "push"     // SpaceService.NewSpace with SpaceDescription (node side of SpacePush)
	epPull     = "pull"     // SpaceService.NewSpace -> SpacePull answer from a fake responsible peer
)

type outcome struct {
	accepted bool
	err      string
}

func errStr(err error) string {
	if err == nil {
		return ""
	}
	s := err.Error()
	if len(s) > 160 {
		s = s[:160]
	}
	return s
}

// offer runs one payload through the entry points and returns accept/reject per entry point.
func offer(c *lib.Case, fx *fixture, p parts, withHeaderOnly bool) map[string]outcome {
	out := map[string]outcome{}
	err := spacepayloads.ValidateSpaceStorageCreatePayload(p.payload())
	out[epValidate] = outcome{accepted: err == nil, err: errStr(err)}
	if withHeaderOnly {
		_, herr := spacepayloads.ValidateSpaceHeader(p.header(), nil, nil, nil)
		out[epHeader] = outcome{accepted: herr == nil, err: errStr(herr)}
	}
	if fx != nil {
		for _, ep := range []string{epPush, epPull} {
			var v verdict
			if ep == epPush {
				v = fx.push(p)
			} else {
				v = fx.pullFrom(p)
			}
			out[ep] = outcome{accepted: v.accepted, err: errStr(v.err)}
			if v.accepted {
				c.Count("entry."+ep+".accepted_total", 1)
				if _, light := fx.sp.lastSt.(*lightStorage); !light {
					c.Count("storage.really_created_and_read_back_via_"+ep, 1)
				}
				if !v.storedOK {
					c.Violation("stored-differs:"+ep, "the storage created for an accepted payload does not hold exactly the accepted parts", map[string]any{"why": v.storedWhy, "payload": p.witness()})
				}
			}
		}
	}
	return out
}

func fmtRepl(k uint64) string { return strconv.FormatUint(k, 36) }
