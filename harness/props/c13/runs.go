package c13

import (
	"context"
	"fmt"
	"sort"
	"strings"

	"github.com/anyproto/any-sync/commonspace/object/acl/list"
	"github.com/anyproto/any-sync/commonspace/object/acl/recordverifier"
	"github.com/anyproto/any-sync/commonspace/object/tree/objecttree"
	"github.com/anyproto/any-sync/commonspace/spacepayloads"
	"github.com/anyproto/any-sync/commonspace/spacesyncproto"
	"github.com/anyproto/any-sync/util/crypto"

	"verifharness/lib"
)

// judge applies the oracle to one offered payload.
// expect: "accept" (valid payload), "reject" (really different payload), "any" (equivalent re-encoding).
func judge(c *lib.Case, res map[string]outcome, expect, keyTail, what string, detail func() map[string]any) (violated bool) {
	eps := make([]string, 0, len(res))
	for ep := range res {
		eps = append(eps, ep)
	}
	sort.Strings(eps)
	for _, ep := range eps {
		r := res[ep]
		switch expect {
		case "accept":
			if !r.accepted {
				ep, r := ep, r
				violation(c, "reject-valid:"+ep+":"+keyTail, "a valid payload was rejected: "+what, func() map[string]any {
					d := detail()
					d["entry_point"], d["error"] = ep, r.err
					return d
				})
				violated = true
			}
		case "reject":
			if r.accepted {
				ep := ep
				violation(c, "accept:"+ep+":"+keyTail, "a payload that differs from every valid one in a bound part was accepted: "+what, func() map[string]any {
					d := detail()
					d["entry_point"] = ep
					return d
				})
				violated = true
			}
		}
	}
	return
}

func verdictWord(res map[string]outcome) string {
	if res[epValidate].accepted {
		return "accepted"
	}
	return "rejected"
}

func every(c *lib.Case) int {
	if c.Quick() {
		return 3
	}
	return 1
}

func runMutants(c *lib.Case) {
	ctor := c.Index % 6
	name := ctorNames[ctor]
	ks := newKeyset(c)
	dks := newKeyset(c)
	o, err := construct(ctor, ks)
	if err != nil {
		c.Violation("constructor-error:"+name, "constructor failed on well-formed input", err.Error())
		return
	}
	// donor: a second valid space of the same constructor (other keys) whose genuinely signed pieces are spliced in
	donor, err := construct(ctor, dks)
	if err != nil {
		c.Violation("constructor-error:"+name, "constructor failed on well-formed input", err.Error())
		return
	}
	fx, err := newFixture(c.TmpDir, account(c), 2)
	if err != nil {
		c.Inconclusive("fixture: " + err.Error())
		return
	}
	defer fx.close()

	// baseline
	base := offer(c, fx, o, true)
	c.Eval(1)
	c.Count("baseline."+name+"."+verdictWord(base), 1)
	if judge(c, base, "accept", name, "unmodified constructor output", func() map[string]any { return map[string]any{"constructor": name, "payload": o.witness()} }) {
		return
	}
	// with the owner's identity given explicitly to the header validator
	if ctor < 4 {
		if _, err := spacepayloads.ValidateSpaceHeader(o.header(), ks.sign.GetPublic(), o.aclRaw, o.setRaw); err != nil {
			c.Violation("reject-valid:header-with-identity:"+name, "ValidateSpaceHeader rejected a valid header when given its owner's identity and its roots", map[string]any{"err": err.Error(), "payload": o.witness()})
		}
	}
	// the creating entry points of the service (they use the v1 constructors)
	serviceCreate(c, fx, ctor, ks, o)
	hdr, _ := decode(o)
	repl := hdr.h.ReplicationKey
	if suffixOf(o.hdrId) != fmtRepl(repl) {
		c.Violation("constructor-suffix:"+name, "the constructor's space id does not end in the header's replication key", o.witness())
	}

	var ms []mutant
	ms = append(ms, byteMutants(c, o, every(c))...)
	ms = append(ms, idMutants(c, o, donor, repl)...)
	fm, err := fieldMutants(c, o, donor)
	if err != nil {
		c.Inconclusive("field mutants: " + err.Error())
	}
	ms = append(ms, fm...)
	ms = append(ms, reencodings(c, o, donor)...)

	judged := 0
	for _, m := range ms {
		if m.p.same(o) {
			c.Count("mutants.noop", 1)
			continue
		}
		headerTouched := m.p.hdrId != o.hdrId || string(m.p.hdrRaw) != string(o.hdrRaw)
		// push/pull go through the service for every structured mutant and for a third of the byte/id-character ones
		useFx := fx
		if (strings.HasPrefix(m.class, "byte-flip") || strings.HasPrefix(m.class, "id-char")) && c.Rng.Intn(3) != 0 {
			useFx = nil
		}
		res := offer(c, useFx, m.p, headerTouched)
		c.Eval(1)
		cls := m.class
		if i := strings.Index(cls, ":"); i > 0 && strings.HasPrefix(cls, "field:") {
			// evidence counters per message, not per field (keys stay per field)
			cls = cls[:strings.Index(cls, ".")]
		}
		if isV1(ctor) {
			headerWithRoots(c, name, o, m.p, m.part+":"+m.class)
		}
		if equivalent(o, m.p) {
			c.Count("equivalent."+name+"."+m.part+"."+verdictWord(res), 1)
			c.Count("equivalent.class."+m.class+"."+verdictWord(res), 1)
			c.Sample("equivalent-"+verdictWord(res), map[string]any{"constructor": name, "part": m.part, "class": m.class})
			continue
		}
		judged++
		c.Count("mutants."+m.part+"."+cls+"."+verdictWord(res), 1)
		c.Count("mutants.by_constructor."+name+"."+verdictWord(res), 1)
		for ep, r := range res {
			if r.accepted {
				c.Count("entry."+ep+".accepted_mutants", 1)
			} else {
				c.Count("entry."+ep+".rejected_mutants", 1)
			}
		}
		mm := m
		judge(c, res, "reject", name+":"+m.part+":"+m.class, fmt.Sprintf("%s %s %s", m.part, m.class, m.note), func() map[string]any {
			return map[string]any{"constructor": name, "part": mm.part, "class": mm.class, "note": mm.note, "original": o.witness(), "mutant": mm.p.witness()}
		})
	}
	if judged > 0 {
		c.Nontrivial(name + "|" + o.hdrId)
	}
	c.Sample("mutant-"+name, map[string]any{"constructor": name, "header_bytes": len(o.hdrRaw), "acl_bytes": len(o.aclRaw), "settings_bytes": len(o.setRaw), "mutants": len(ms), "judged": judged})

	probes(c, fx, ctor, o, donor)
	resigned(c, fx, ctor, ks, o)
}

// ---------------------------------------------------------------- probes with third-party signatures

// probes: payloads in which a third party signs fresh parts with its own key.
// For v1 the header embeds the roots, so "original header + any other root"
// differs in a bound part and is judged. For v0 the binding is only "the roots
// name the space id", which anybody can write into a root of his own: outside
// the quantifier of the property, counted under info.* (see FINDINGS.md).
func probes(c *lib.Case, fx *fixture, ctor int, o, donor parts) {
	name := ctorNames[ctor]
	att, attMaster := edKey(c), edKey(c)
	ksStore := crypto.NewKeyStorage()
	spaceIdInRoots := o.hdrId
	if isV1(ctor) {
		spaceIdInRoots = ""
	}
	fAcl, err := list.NewAclRecordBuilder("", ksStore, nil, recordverifier.NewValidateFull()).BuildRoot(list.RootContent{PrivKey: att, MasterKey: attMaster, SpaceId: spaceIdInRoots})
	if err != nil {
		c.Inconclusive("probe: " + err.Error())
		return
	}
	mkSettings := func(aclId string) (raw []byte, id string, err error) {
		_, r, err := objecttree.NewChangeBuilder(ksStore, nil).BuildRoot(objecttree.InitialContent{AclHeadId: aclId, PrivKey: att, SpaceId: spaceIdInRoots, ChangeType: spacepayloads.SpaceReserved, Seed: randBytes(c, 8)})
		if err != nil {
			return nil, "", err
		}
		return r.RawChange, r.Id, nil
	}
	set1, set1Id, err := mkSettings(fAcl.Id)
	if err != nil {
		c.Inconclusive("probe: " + err.Error())
		return
	}
	set2, set2Id, err := mkSettings(o.aclId)
	if err != nil {
		c.Inconclusive("probe: " + err.Error())
		return
	}
	type probe struct {
		name string
		p    parts
	}
	ps := []probe{
		{"original-header+third-party-acl-root+third-party-settings", parts{hdrRaw: o.hdrRaw, hdrId: o.hdrId, aclRaw: fAcl.Payload, aclId: fAcl.Id, setRaw: set1, setId: set1Id}},
		{"original-header+original-acl-root+third-party-settings", parts{hdrRaw: o.hdrRaw, hdrId: o.hdrId, aclRaw: o.aclRaw, aclId: o.aclId, setRaw: set2, setId: set2Id}},
	}
	for _, pr := range ps {
		res := offer(c, fx, pr.p, false)
		c.Eval(1)
		if isV1(ctor) {
			c.Count("mutants.third-party-roots.v1."+verdictWord(res), 1)
			p := pr
			judge(c, res, "reject", name+":roots:"+pr.name, pr.name, func() map[string]any {
				return map[string]any{"constructor": name, "original": o.witness(), "offered": p.p.witness()}
			})
		} else {
			for ep, r := range res {
				w := "rejected"
				if r.accepted {
					w = "accepted"
				}
				c.Count("info.v0."+pr.name+"."+ep+"."+w, 1)
			}
		}
	}
	// a third party's own v1 header that embeds the victim's roots: a different space id adopting the same roots
	if isV1(ctor) {
		id, _ := att.GetPublic().Marshall()
		h := &spacesyncproto.SpaceHeader{Identity: id, SpaceType: "third.party", ReplicationKey: 42, AclPayload: clone(o.aclRaw), SettingPayload: clone(o.setRaw),
			Version: spacesyncproto.SpaceHeaderVersion_SpaceHeaderVersion1}
		signed := must(h.MarshalVT())
		sig, _ := att.Sign(signed)
		raw := must((&spacesyncproto.RawSpaceHeader{SpaceHeader: signed, Signature: sig}).MarshalVT())
		p := parts{hdrRaw: raw, hdrId: cidOf(raw) + "." + fmtRepl(42), aclRaw: o.aclRaw, aclId: o.aclId, setRaw: o.setRaw, setId: o.setId}
		res := offer(c, nil, p, false)
		c.Count("info.v1.third-party-header-embedding-the-same-roots(new-space-id)."+verdictWord(res), 1)
	}
	// pull: the node answers without a payload (belongs to C11 - hostile input must not crash; only counted here)
	if c.Index%6 == ctor {
		func() {
			defer func() {
				fx.pull = nil
				if r := recover(); r != nil {
					// a peer's answer must never crash the client (the C11 clause; this harness is the one driving the pull path)
					c.Count("info.pull.response-without-payload.panic", 1)
					c.Violation("panic:pull:response-without-payload", "a SpacePullResponse without payload panics the pulling client", map[string]any{"panic": fmt.Sprint(r)})
				}
			}()
			fx.pull = &spacesyncproto.SpacePullResponse{}
			_, err := fx.svc.NewSpace(context.Background(), o.hdrId, fx.deps())
			if err != nil {
				c.Count("info.pull.response-without-payload.error", 1)
			} else {
				c.Count("info.pull.response-without-payload.accepted", 1)
			}
		}()
	}
	// pull: the node answers a request for space X with a different valid space
	if c.Index%2 == 0 {
		fx.pull = &spacesyncproto.SpacePullResponse{Payload: &spacesyncproto.SpacePayload{SpaceHeader: donor.header(), AclPayload: clone(donor.aclRaw), AclPayloadId: donor.aclId,
			SpaceSettingsPayload: clone(donor.setRaw), SpaceSettingsPayloadId: donor.setId}}
		before := len(fx.sp.created)
		_, err := fx.svc.NewSpace(context.Background(), o.hdrId, fx.deps())
		fx.pull = nil
		if len(fx.sp.created) > before && err == nil {
			c.Count("info.pull.answer-is-another-valid-space.accepted", 1)
		} else {
			c.Count("info.pull.answer-is-another-valid-space.rejected", 1)
		}
	}
}

// ---------------------------------------------------------------- cross-combinations

var compNames = []string{"hdr", "hdrid", "acl", "aclid", "set", "setid"}

func pick(a, b parts, mask int) parts {
	p := a
	if mask&1 != 0 {
		p.hdrRaw = b.hdrRaw
	}
	if mask&2 != 0 {
		p.hdrId = b.hdrId
	}
	if mask&4 != 0 {
		p.aclRaw = b.aclRaw
	}
	if mask&8 != 0 {
		p.aclId = b.aclId
	}
	if mask&16 != 0 {
		p.setRaw = b.setRaw
	}
	if mask&32 != 0 {
		p.setId = b.setId
	}
	return p
}

func maskName(mask int) string {
	var s []string
	for i, n := range compNames {
		if mask&(1<<i) != 0 {
			s = append(s, n+"=B")
		} else {
			s = append(s, n+"=A")
		}
	}
	return strings.Join(s, ",")
}

func runCross(c *lib.Case) {
	idx := c.Index
	ca := idx % 6
	cb := (idx / 6) % 6
	sameOwner := (idx/36)%2 == 1
	na, nb := ctorNames[ca], ctorNames[cb]
	ksA := newKeyset(c)
	ksB := newKeyset(c)
	owner := "different-owners"
	if sameOwner {
		owner = "same-owner"
		// the same person (and for one-to-one the same pair) creates a second space
		ksB.sign, ksB.master, ksB.peer = ksA.sign, ksA.master, ksA.peer
		if c.Rng.Intn(2) == 0 {
			ksB.read, ksB.meta = ksA.read, ksA.meta
		}
		if c.Rng.Intn(3) == 0 {
			ksB.repl = ksA.repl
		}
		if ksB.spaceType == ksA.spaceType && string(ksB.spacePayload) == string(ksA.spacePayload) {
			ksB.spaceType += ".2"
		}
	}
	a, err := construct(ca, ksA)
	if err != nil {
		c.Violation("constructor-error:"+na, "constructor failed on well-formed input", err.Error())
		return
	}
	b, err := construct(cb, ksB)
	if err != nil {
		c.Violation("constructor-error:"+nb, "constructor failed on well-formed input", err.Error())
		return
	}
	real := 0
	if c.Index%4 == 0 {
		real = 1
	}
	fx, err := newFixture(c.TmpDir, account(c), real)
	if err != nil {
		c.Inconclusive("fixture: " + err.Error())
		return
	}
	defer fx.close()
	for i, p := range []parts{a, b} {
		res := offer(c, fx, p, true)
		c.Eval(1)
		nm := []string{na, nb}[i]
		if judge(c, res, "accept", nm, "unmodified constructor output", func() map[string]any { return map[string]any{"constructor": nm, "payload": p.witness()} }) {
			return
		}
		if a.same(b) {
			break // one storage per id
		}
	}
	judged := 0
	for mask := 1; mask < 63; mask++ {
		p := pick(a, b, mask)
		c.Eval(1)
		pair := na + "+" + nb + ":" + owner
		switch {
		case p.same(a) || p.same(b):
			// the selection is one of the two valid spaces (shared, byte-identical components)
			res := offer(c, nil, p, true)
			c.Count("cross.identical-to-a-valid-space."+verdictWord(res), 1)
			judge(c, res, "accept", "cross:"+pair, "selection identical to a valid space", func() map[string]any {
				return map[string]any{"a": a.witness(), "b": b.witness(), "selection": maskName(mask)}
			})
		case equivalent(a, p) || equivalent(b, p):
			res := offer(c, nil, p, false)
			c.Count("cross.equivalent."+verdictWord(res), 1)
		default:
			headerMixed := p.hdrId != a.hdrId || string(p.hdrRaw) != string(a.hdrRaw)
			headerIsB := p.hdrId == b.hdrId && string(p.hdrRaw) == string(b.hdrRaw)
			useFx := fx
			if mask%3 != 0 && !c.Quick() {
				useFx = nil
			}
			res := offer(c, useFx, p, false)
			// header-only validation concerns the header pair alone
			if _, herr := spacepayloads.ValidateSpaceHeader(p.header(), nil, nil, nil); headerMixed && !headerIsB {
				res[epHeader] = outcome{accepted: herr == nil, err: errStr(herr)}
			}
			if isV1(ca) && p.hdrId == a.hdrId && string(p.hdrRaw) == string(a.hdrRaw) {
				headerWithRoots(c, na, a, p, "cross:"+maskName(mask))
			}
			if isV1(cb) && headerIsB {
				headerWithRoots(c, nb, b, p, "cross:"+maskName(mask^63))
			}
			judged++
			c.Count("cross."+owner+"."+verdictWord(res), 1)
			c.Count("cross.pair."+na+"+"+nb+"."+verdictWord(res), 1)
			m := mask
			judge(c, res, "reject", "cross:"+pair+":"+maskName(mask), "cross-combination "+maskName(mask), func() map[string]any {
				return map[string]any{"a_constructor": na, "b_constructor": nb, "owner": owner, "selection": maskName(m), "a": a.witness(), "b": b.witness()}
			})
		}
	}
	if judged > 0 {
		c.Nontrivial(fmt.Sprintf("%s+%s|%s|%s|%s", na, nb, owner, a.hdrId, b.hdrId))
	}
	c.Sample("cross-"+owner, map[string]any{"a": na, "b": nb, "judged_selections": judged, "a_id": a.hdrId, "b_id": b.hdrId})
}

// serviceCreate: CreateSpace / DeriveSpace / DeriveId / DeriveOneToOneSpace of the real service must accept
// what they build; the deterministic ones must name the same space as the constructor output.
func serviceCreate(c *lib.Case, fx *fixture, ctor int, ks keyset, o parts) {
	ctx := context.Background()
	name := ctorNames[ctor]
	before := len(fx.sp.created)
	var (
		id   string
		err  error
		want = ""
	)
	switch ctor {
	case 1:
		id, err = fx.svc.CreateSpace(ctx, spacepayloads.SpaceCreatePayload{SigningKey: ks.sign, SpaceType: ks.spaceType, ReplicationKey: ks.repl, SpacePayload: ks.spacePayload,
			MasterKey: ks.master, ReadKey: ks.read, MetadataKey: ks.meta, Metadata: ks.metadata, Options: ks.options, FileProtoVersion: ks.fileProto})
	case 3:
		dp := spacepayloads.SpaceDerivePayload{SigningKey: ks.sign, MasterKey: ks.master, SpaceType: ks.spaceType, SpacePayload: ks.spacePayload, FileProtoVersion: ks.fileProto}
		id, err = fx.svc.DeriveSpace(ctx, dp)
		want = o.hdrId
		if id2, e2 := fx.svc.DeriveId(ctx, dp); e2 != nil || id2 != o.hdrId {
			c.Violation("derive-id-differs", "DeriveId does not name the space the derive constructor builds", map[string]any{"derive_id": id2, "constructor": o.hdrId, "err": fmt.Sprint(e2)})
		}
	case 4:
		id, err = fx.svc.DeriveOneToOneSpace(ctx, ks.sign, ks.peer.GetPublic())
		want = o.hdrId
	default:
		return
	}
	c.Eval(1)
	if err != nil || len(fx.sp.created) != before+1 {
		c.Violation("reject-valid:create:"+name, "the service rejected the payload it built itself", map[string]any{"err": fmt.Sprint(err)})
		return
	}
	c.Count("entry.create.accepted_own_payload", 1)
	got := fromPayload(fx.sp.created[len(fx.sp.created)-1])
	if got.hdrId != id || (want != "" && want != id) {
		c.Violation("create-id-differs:"+name, "the id returned by the service differs from the stored header id / the constructor's id", map[string]any{"returned": id, "stored": got.hdrId, "constructor": want})
	}
	if want != "" && !got.same(o) {
		c.Violation("create-payload-differs:"+name, "a deterministic derivation produced different parts on a second run", map[string]any{"first": o.witness(), "second": got.witness()})
	}
	if ok, why := checkStored(fx.sp.lastSt, got); !ok {
		c.Violation("stored-differs:create", "the storage created by the service does not hold the payload it validated", why)
	}
}

// headerWithRoots: ValidateSpaceHeader(header, nil, aclPayload, settingsPayload) - the header-level check a
// caller uses when it holds the roots separately. Only meaningful for v1 (a v0 header does not embed roots).
// o is the valid space whose header (possibly mutated) is offered.
func headerWithRoots(c *lib.Case, name string, o, m parts, class string) {
	_, err := spacepayloads.ValidateSpaceHeader(m.header(), nil, m.aclRaw, m.setRaw)
	accepted := err == nil
	hdrSame := m.hdrId == o.hdrId && string(m.hdrRaw) == string(o.hdrRaw)
	rootsSame := string(m.aclRaw) == string(o.aclRaw) && string(m.setRaw) == string(o.setRaw) && m.aclRaw != nil && m.setRaw != nil
	hdrOnly := o
	hdrOnly.hdrId, hdrOnly.hdrRaw = m.hdrId, m.hdrRaw
	w := "rejected"
	if accepted {
		w = "accepted"
	}
	switch {
	case hdrSame && rootsSame:
		// only the ids of the roots were touched; this function does not see them
		c.Count("entry.header+roots.unchanged_inputs."+w, 1)
		if !accepted {
			c.Violation("reject-valid:header+roots:"+name, "ValidateSpaceHeader rejected a valid v1 header offered with its own roots", map[string]any{"err": errStr(err), "payload": m.witness()})
		}
	case rootsSame && equivalent(o, hdrOnly):
		c.Count("entry.header+roots.equivalent."+w, 1)
	default:
		c.Count("entry.header+roots.mutants."+w, 1)
		if accepted {
			violation(c, "accept:header+roots:"+name+":"+class, "ValidateSpaceHeader accepted a v1 header together with roots that are not the ones it embeds (or a modified header)",
				func() map[string]any {
					return map[string]any{"constructor": name, "class": class, "original": o.witness(), "offered": m.witness()}
				})
		}
	}
}
