package c13

import (
	"fmt"
	"sync"

	"verifharness/lib"
)

// concurrent: the deterministic constructors (derive v0/v1, one-to-one of both types) are run by
// many goroutines at once for different identities and compared with the payloads the same inputs
// gave sequentially: "independently derive the identical space id, ACL root, settings root" must
// not depend on what else the process derives at the same time. Runs under the race detector.
// (Added after seeded change C13-2 - a package-level hasher shared by the derive constructors -
// was missed: every other C13 workload derives from one goroutine per process.)
func runConcurrent(c *lib.Case) {
	type job struct {
		ctor int
		ks   keyset
		ref  parts
		name string
	}
	var jobs []job
	n := 6 + c.Rng.Intn(6)
	alice := newKeyset(c)
	for i := 0; i < n; i++ {
		bob := newKeyset(c)
		// alice -> bob_i and bob_i -> alice, both 1-1 types; personal derives of bob_i
		ab := alice
		ab.peer = bob.sign
		ba := bob
		ba.peer = alice.sign
		for _, ctor := range []int{4, 5} {
			jobs = append(jobs, job{ctor: ctor, ks: ab, name: fmt.Sprintf("alice->bob%d/%s", i, ctorNames[ctor])},
				job{ctor: ctor, ks: ba, name: fmt.Sprintf("bob%d->alice/%s", i, ctorNames[ctor])})
		}
		for _, ctor := range []int{2, 3} {
			jobs = append(jobs, job{ctor: ctor, ks: bob, name: fmt.Sprintf("bob%d/%s", i, ctorNames[ctor])})
		}
	}
	for i := range jobs {
		p, err := construct(jobs[i].ctor, jobs[i].ks)
		if err != nil {
			c.Inconclusive("sequential reference derivation failed: " + err.Error())
			return
		}
		jobs[i].ref = p
	}
	rounds := 30
	if !c.Quick() {
		rounds = 120
	}
	type diff struct {
		job   string
		field string
	}
	var mu sync.Mutex
	var diffs []diff
	derivations := 0
	for r := 0; r < rounds && len(diffs) == 0; r++ {
		var wg sync.WaitGroup
		start := make(chan struct{})
		for i := range jobs {
			wg.Add(1)
			go func(j job) {
				defer wg.Done()
				<-start
				p, err := construct(j.ctor, j.ks)
				mu.Lock()
				defer mu.Unlock()
				derivations++
				if err != nil {
					diffs = append(diffs, diff{j.name, "error:" + err.Error()})
					return
				}
				switch {
				case p.hdrId != j.ref.hdrId:
					diffs = append(diffs, diff{j.name, "space-id"})
				case p.aclId != j.ref.aclId:
					diffs = append(diffs, diff{j.name, "acl-root-id"})
				case p.setId != j.ref.setId:
					diffs = append(diffs, diff{j.name, "settings-root-id"})
				case string(p.hdrRaw) != string(j.ref.hdrRaw):
					diffs = append(diffs, diff{j.name, "header-bytes"})
				}
			}(jobs[i])
		}
		close(start)
		wg.Wait()
	}
	c.Eval(1)
	c.Count("concurrent.derivations", int64(derivations))
	c.Count("concurrent.jobs_per_round", int64(len(jobs)))
	c.Nontrivial(fmt.Sprintf("conc/%d/%d", c.Index, len(jobs)))
	c.Sample("concurrent", map[string]any{"jobs": len(jobs), "rounds": rounds, "derivations": derivations})
	if len(diffs) > 0 {
		d := diffs[0]
		c.Violation("concurrent-derivation:"+d.field, "a deterministic space derivation gave a different result while other derivations ran concurrently in the same process (the two parties of a one-to-one space would end up in different spaces)",
			map[string]any{"job": d.job, "differs_in": d.field, "all": diffs})
	}
}
