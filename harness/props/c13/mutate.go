package c13

import (
	"fmt"
	"strings"

	"github.com/ipfs/go-cid"
	"github.com/multiformats/go-multicodec"
	mh "github.com/multiformats/go-multihash"
	"google.golang.org/protobuf/encoding/protowire"

	"github.com/anyproto/any-sync/commonspace/object/acl/aclrecordproto"
	"github.com/anyproto/any-sync/commonspace/object/tree/treechangeproto"
	"github.com/anyproto/any-sync/commonspace/spacesyncproto"
	"github.com/anyproto/any-sync/consensus/consensusproto"

	"verifharness/lib"
)

// cidOf: the public content-id function (CIDv1, dag-cbor codec, sha2-256), computed without the repository's helper.
func cidOf(b []byte) string {
	h, err := mh.Sum(b, mh.SHA2_256, -1)
	if err != nil {
		panic(err)
	}
	return cid.NewCidV1(uint64(multicodec.DagCbor), h).String()
}

type mutant struct {
	p     parts
	part  string // header | acl | settings | header-id | acl-id | settings-id
	class string
	note  string
}

// equivalent: m carries exactly the signed contents and signatures of o, only
// re-encoded, with ids that are the correct hashes of its own raw bytes and the
// original replication suffix. Such a mutant is the same space content.
func equivalent(o, m parts) bool {
	if m.hdrId != cidOf(m.hdrRaw)+"."+suffixOf(o.hdrId) || !strings.Contains(o.hdrId, ".") {
		return false
	}
	if m.aclId != cidOf(m.aclRaw) || m.setId != cidOf(m.setRaw) {
		return false
	}
	var ho, hm spacesyncproto.RawSpaceHeader
	if ho.UnmarshalVT(o.hdrRaw) != nil || hm.UnmarshalVT(m.hdrRaw) != nil {
		return false
	}
	if string(ho.SpaceHeader) != string(hm.SpaceHeader) || string(ho.Signature) != string(hm.Signature) {
		return false
	}
	var ao, am consensusproto.RawRecord
	if ao.UnmarshalVT(o.aclRaw) != nil || am.UnmarshalVT(m.aclRaw) != nil {
		return false
	}
	if string(ao.Payload) != string(am.Payload) || string(ao.Signature) != string(am.Signature) ||
		string(ao.AcceptorIdentity) != string(am.AcceptorIdentity) || string(ao.AcceptorSignature) != string(am.AcceptorSignature) ||
		ao.AcceptorTimestamp != am.AcceptorTimestamp {
		return false
	}
	var so, sm treechangeproto.RawTreeChange
	if so.UnmarshalVT(o.setRaw) != nil || sm.UnmarshalVT(m.setRaw) != nil {
		return false
	}
	return string(so.Payload) == string(sm.Payload) && string(so.Signature) == string(sm.Signature)
}

func (p parts) withRaw(part string, raw []byte, rehash bool, o parts) parts {
	q := p
	switch part {
	case "header":
		q.hdrRaw = raw
		if rehash {
			q.hdrId = cidOf(raw) + "." + suffixOf(o.hdrId)
		}
	case "acl":
		q.aclRaw = raw
		if rehash {
			q.aclId = cidOf(raw)
		}
	case "settings":
		q.setRaw = raw
		if rehash {
			q.setId = cidOf(raw)
		}
	}
	return q
}

func (p parts) raw(part string) []byte {
	switch part {
	case "header":
		return p.hdrRaw
	case "acl":
		return p.aclRaw
	}
	return p.setRaw
}

var rawParts = []string{"header", "acl", "settings"}

// ---------------------------------------------------------------- byte level

func byteMutants(c *lib.Case, o parts, every int) []mutant {
	var out []mutant
	for _, part := range rawParts {
		raw := o.raw(part)
		off := 0
		if every > 1 {
			off = c.Rng.Intn(every)
		}
		for i := off; i < len(raw); i += every {
			x := byte(1 + c.Rng.Intn(255))
			if c.Rng.Intn(2) == 0 {
				x = 1 << uint(c.Rng.Intn(8))
			}
			b := clone(raw)
			b[i] ^= x
			note := fmt.Sprintf("pos=%d xor=%#x", i, x)
			out = append(out, mutant{p: o.withRaw(part, b, false, o), part: part, class: "byte-flip", note: note})
			out = append(out, mutant{p: o.withRaw(part, clone(b), true, o), part: part, class: "byte-flip-rehash", note: note})
		}
		// length changes
		add := func(class string, b []byte) {
			out = append(out, mutant{p: o.withRaw(part, b, false, o), part: part, class: class})
			out = append(out, mutant{p: o.withRaw(part, clone(b), true, o), part: part, class: class + "-rehash"})
		}
		if len(raw) > 0 {
			add("truncate-last", clone(raw[:len(raw)-1]))
			add("truncate-half", clone(raw[:len(raw)/2]))
			add("truncate-first", clone(raw[1:]))
		}
		add("empty", []byte{})
		add("append-zero", append(clone(raw), 0))
		add("append-random", append(clone(raw), randBytes(c, 1+c.Rng.Intn(8))...))
	}
	return out
}

// ---------------------------------------------------------------- id level

const (
	b32 = "abcdefghijklmnopqrstuvwxyz234567"
	a36 = "0123456789abcdefghijklmnopqrstuvwxyz"
)

func otherChar(c *lib.Case, old byte, alpha string) byte {
	for {
		n := alpha[c.Rng.Intn(len(alpha))]
		if n != old {
			return n
		}
	}
}

func (p parts) withId(which, id string) parts {
	q := p
	switch which {
	case "header-id":
		q.hdrId = id
	case "acl-id":
		q.aclId = id
	case "settings-id":
		q.setId = id
	}
	return q
}

func (p parts) id(which string) string {
	switch which {
	case "header-id":
		return p.hdrId
	case "acl-id":
		return p.aclId
	}
	return p.setId
}

func idMutants(c *lib.Case, o, donor parts, repl uint64) []mutant {
	var out []mutant
	add := func(which, class, id, note string) {
		if id == o.id(which) {
			return // a "mutation" that reproduces the same string is not a mutation
		}
		out = append(out, mutant{p: o.withId(which, id), part: which, class: class, note: note})
	}
	for _, which := range []string{"header-id", "acl-id", "settings-id"} {
		id := o.id(which)
		dot := strings.Index(id, ".")
		for i := 0; i < len(id); i++ {
			alpha := b32
			class := "id-char"
			if which == "header-id" && dot >= 0 && i > dot {
				alpha = a36
				class = "id-char-in-suffix"
			}
			if which == "header-id" && i == dot {
				class = "id-dot-replaced"
			}
			b := []byte(id)
			b[i] = otherChar(c, b[i], alpha)
			add(which, class, string(b), fmt.Sprintf("pos=%d", i))
			// the neighbouring code point (single-bit change of the character)
			b2 := []byte(id)
			b2[i] ^= 1
			add(which, class+"-bit", string(b2), fmt.Sprintf("pos=%d", i))
			// case change
			b3 := []byte(id)
			if b3[i] >= 'a' && b3[i] <= 'z' {
				b3[i] -= 32
				add(which, class+"-upper", string(b3), fmt.Sprintf("pos=%d", i))
			}
		}
		add(which, "id-drop-last", id[:len(id)-1], "")
		add(which, "id-drop-first", id[1:], "")
		add(which, "id-append", id+string(b32[c.Rng.Intn(32)]), "")
		add(which, "id-append-space", id+" ", "")
		add(which, "id-prepend-space", " "+id, "")
		add(which, "id-upper", strings.ToUpper(id), "")
		add(which, "id-empty", "", "")
		add(which, "id-of-donor", donor.id(which), "")
		if i := 1 + c.Rng.Intn(len(id)-2); id[i] != id[i+1] {
			b := []byte(id)
			b[i], b[i+1] = b[i+1], b[i]
			add(which, "id-swap-adjacent", string(b), fmt.Sprintf("pos=%d", i))
		}
	}
	// header id: structure and replication suffix
	id := o.hdrId
	dot := strings.Index(id, ".")
	if dot > 0 {
		cidPart, sfx := id[:dot], id[dot+1:]
		h := func(class, nid string) { add("header-id", class, nid, "") }
		h("suffix:no-dot", cidPart+sfx)
		h("suffix:no-suffix-no-dot", cidPart)
		h("suffix:empty", cidPart+".")
		h("suffix:double-dot", cidPart+".."+sfx)
		h("suffix:trailing-dot", id+".")
		h("suffix:extra-segment", id+"."+sfx)
		h("suffix:leading-dot", "."+id)
		h("suffix:dash", cidPart+"-"+sfx)
		h("suffix:plus-one", cidPart+"."+fmtRepl(repl+1))
		h("suffix:minus-one", cidPart+"."+fmtRepl(repl-1))
		h("suffix:leading-zero", cidPart+".0"+sfx)
		h("suffix:plus-sign", cidPart+".+"+sfx)
		h("suffix:upper", cidPart+"."+strings.ToUpper(sfx))
		h("suffix:decimal", cidPart+"."+fmt.Sprintf("%d", repl))
		h("suffix:hex", cidPart+"."+fmt.Sprintf("%x", repl))
		h("suffix:trailing-space", id+" ")
		h("suffix:of-donor", cidPart+"."+suffixOf(donor.hdrId))
		h("suffix:random", cidPart+"."+fmtRepl(c.Rng.Uint64()))
		h("suffix:swapped", sfx+"."+cidPart)
	}
	return out
}

// ---------------------------------------------------------------- protobuf field level

type decoded struct {
	rh spacesyncproto.RawSpaceHeader
	h  spacesyncproto.SpaceHeader
	rr consensusproto.RawRecord
	ar aclrecordproto.AclRoot
	rt treechangeproto.RawTreeChange
	rc treechangeproto.RootChange
}

func decode(p parts) (*decoded, error) {
	d := &decoded{}
	if err := d.rh.UnmarshalVT(p.hdrRaw); err != nil {
		return nil, err
	}
	if err := d.h.UnmarshalVT(d.rh.SpaceHeader); err != nil {
		return nil, err
	}
	if err := d.rr.UnmarshalVT(p.aclRaw); err != nil {
		return nil, err
	}
	if err := d.ar.UnmarshalVT(d.rr.Payload); err != nil {
		return nil, err
	}
	if err := d.rt.UnmarshalVT(p.setRaw); err != nil {
		return nil, err
	}
	if err := d.rc.UnmarshalVT(d.rt.Payload); err != nil {
		return nil, err
	}
	return d, nil
}

func must(b []byte, err error) []byte {
	if err != nil {
		panic(err)
	}
	return b
}

func flip(c *lib.Case, b []byte) []byte {
	if len(b) == 0 {
		return []byte{byte(1 + c.Rng.Intn(255))}
	}
	o := clone(b)
	o[c.Rng.Intn(len(o))] ^= byte(1 + c.Rng.Intn(255))
	return o
}

// fieldMutants: single-field edits; the edited message is re-marshalled, the
// enclosing raw message keeps the ORIGINAL signature, content ids are re-hashed.
func fieldMutants(c *lib.Case, o, donor parts) ([]mutant, error) {
	var out []mutant
	// sanity: re-marshalling the untouched messages reproduces the constructor's bytes
	d0, err := decode(o)
	if err != nil {
		return nil, err
	}
	dd, err := decode(donor)
	if err != nil {
		return nil, err
	}
	if string(must(d0.h.MarshalVT())) != string(d0.rh.SpaceHeader) || string(must(d0.rh.MarshalVT())) != string(o.hdrRaw) ||
		string(must(d0.ar.MarshalVT())) != string(d0.rr.Payload) || string(must(d0.rr.MarshalVT())) != string(o.aclRaw) ||
		string(must(d0.rc.MarshalVT())) != string(d0.rt.Payload) || string(must(d0.rt.MarshalVT())) != string(o.setRaw) {
		return nil, fmt.Errorf("re-marshalling an untouched payload does not reproduce its bytes")
	}

	// ---- SpaceHeader fields (signed)
	type hEdit struct {
		name string
		f    func(h *spacesyncproto.SpaceHeader, q *parts)
		// followSuffix: the id suffix is set to the edited replication key
		followSuffix bool
	}
	hEdits := []hEdit{
		{name: "identity=donor", f: func(h *spacesyncproto.SpaceHeader, q *parts) { h.Identity = clone(dd.h.Identity) }},
		{name: "identity=flip", f: func(h *spacesyncproto.SpaceHeader, q *parts) { h.Identity = flip(c, h.Identity) }},
		{name: "timestamp+1", f: func(h *spacesyncproto.SpaceHeader, q *parts) { h.Timestamp++ }},
		{name: "timestamp=rand", f: func(h *spacesyncproto.SpaceHeader, q *parts) { h.Timestamp = h.Timestamp ^ (1 + c.Rng.Int63n(1<<40)) }},
		{name: "spaceType+x", f: func(h *spacesyncproto.SpaceHeader, q *parts) { h.SpaceType += "x" }},
		{name: "spaceType=onetoone", f: func(h *spacesyncproto.SpaceHeader, q *parts) {
			if h.SpaceType == "anytype.onetoone" {
				h.SpaceType = "any.onetoone"
			} else {
				h.SpaceType = "anytype.onetoone"
			}
		}},
		{name: "spaceType=empty", f: func(h *spacesyncproto.SpaceHeader, q *parts) {
			if h.SpaceType == "" {
				h.SpaceType = "y"
			} else {
				h.SpaceType = ""
			}
		}},
		{name: "replicationKey+1", f: func(h *spacesyncproto.SpaceHeader, q *parts) { h.ReplicationKey++ }},
		{name: "replicationKey+1,suffix-follows", f: func(h *spacesyncproto.SpaceHeader, q *parts) { h.ReplicationKey++ }, followSuffix: true},
		{name: "replicationKey=rand,suffix-follows", f: func(h *spacesyncproto.SpaceHeader, q *parts) { h.ReplicationKey ^= 1 + uint64(c.Rng.Int63()) }, followSuffix: true},
		{name: "seed=flip", f: func(h *spacesyncproto.SpaceHeader, q *parts) { h.Seed = flip(c, h.Seed) }},
		{name: "spaceHeaderPayload=flip", f: func(h *spacesyncproto.SpaceHeader, q *parts) { h.SpaceHeaderPayload = flip(c, h.SpaceHeaderPayload) }},
		{name: "spaceHeaderPayload=donor", f: func(h *spacesyncproto.SpaceHeader, q *parts) {
			h.SpaceHeaderPayload = append(clone(dd.h.SpaceHeaderPayload), 7)
		}},
		{name: "aclPayload=donor(consistent)", f: func(h *spacesyncproto.SpaceHeader, q *parts) {
			h.AclPayload = clone(donor.aclRaw)
			q.aclRaw, q.aclId = clone(donor.aclRaw), donor.aclId
		}},
		{name: "settingPayload=donor(consistent)", f: func(h *spacesyncproto.SpaceHeader, q *parts) {
			h.SettingPayload = clone(donor.setRaw)
			q.setRaw, q.setId = clone(donor.setRaw), donor.setId
		}},
		{name: "aclPayload+settingPayload=donor(consistent)", f: func(h *spacesyncproto.SpaceHeader, q *parts) {
			h.AclPayload, h.SettingPayload = clone(donor.aclRaw), clone(donor.setRaw)
			q.aclRaw, q.aclId, q.setRaw, q.setId = clone(donor.aclRaw), donor.aclId, clone(donor.setRaw), donor.setId
		}},
		{name: "aclPayload=flip", f: func(h *spacesyncproto.SpaceHeader, q *parts) { h.AclPayload = flip(c, h.AclPayload) }},
		{name: "settingPayload=flip", f: func(h *spacesyncproto.SpaceHeader, q *parts) { h.SettingPayload = flip(c, h.SettingPayload) }},
		{name: "aclPayload=cleared", f: func(h *spacesyncproto.SpaceHeader, q *parts) {
			if len(h.AclPayload) == 0 {
				h.AclPayload = clone(q.aclRaw)
			} else {
				h.AclPayload = nil
			}
		}},
		{name: "fileprotoVersion", f: func(h *spacesyncproto.SpaceHeader, q *parts) { h.FileprotoVersion ^= 2 }},
		{name: "version-toggled", f: func(h *spacesyncproto.SpaceHeader, q *parts) { h.Version ^= 1 }},
		{name: "version-toggled,payloads-embedded", f: func(h *spacesyncproto.SpaceHeader, q *parts) {
			h.Version ^= 1
			if h.Version == 1 {
				h.AclPayload, h.SettingPayload = clone(q.aclRaw), clone(q.setRaw)
			} else {
				h.AclPayload, h.SettingPayload = nil, nil
			}
		}},
	}
	for _, e := range hEdits {
		d, _ := decode(o)
		q := o
		e.f(&d.h, &q)
		signed := must(d.h.MarshalVT())
		if string(signed) == string(d0.rh.SpaceHeader) {
			continue
		}
		raw := must((&spacesyncproto.RawSpaceHeader{SpaceHeader: signed, Signature: clone(d0.rh.Signature)}).MarshalVT())
		q.hdrRaw = raw
		sfx := suffixOf(o.hdrId)
		if e.followSuffix {
			sfx = fmtRepl(d.h.ReplicationKey)
		}
		q.hdrId = cidOf(raw) + "." + sfx
		out = append(out, mutant{p: q, part: "header", class: "field:SpaceHeader." + e.name})
	}
	// ---- RawSpaceHeader fields (outer)
	rhEdits := map[string]func(r *spacesyncproto.RawSpaceHeader){
		"signature=donor":     func(r *spacesyncproto.RawSpaceHeader) { r.Signature = clone(dd.rh.Signature) },
		"signature=empty":     func(r *spacesyncproto.RawSpaceHeader) { r.Signature = nil },
		"signature=truncated": func(r *spacesyncproto.RawSpaceHeader) { r.Signature = clone(r.Signature[:len(r.Signature)-1]) },
		"signature=flip":      func(r *spacesyncproto.RawSpaceHeader) { r.Signature = flip(c, r.Signature) },
		"signature=acl-signature": func(r *spacesyncproto.RawSpaceHeader) {
			r.Signature = clone(d0.rr.Signature)
		},
		"spaceHeader=donor": func(r *spacesyncproto.RawSpaceHeader) { r.SpaceHeader = clone(dd.rh.SpaceHeader) },
		"spaceHeader=acl-payload": func(r *spacesyncproto.RawSpaceHeader) {
			r.SpaceHeader = clone(d0.rr.Payload)
			r.Signature = clone(d0.rr.Signature)
		},
	}
	for _, name := range sortedNames(rhEdits) {
		d, _ := decode(o)
		rhEdits[name](&d.rh)
		raw := must(d.rh.MarshalVT())
		if string(raw) == string(o.hdrRaw) {
			continue
		}
		out = append(out, mutant{p: o.withRaw("header", raw, true, o), part: "header", class: "field:RawSpaceHeader." + name})
	}
	// ---- AclRoot fields (signed)
	arEdits := map[string]func(a *aclrecordproto.AclRoot){
		"identity=donor":  func(a *aclrecordproto.AclRoot) { a.Identity = clone(dd.ar.Identity) },
		"identity=flip":   func(a *aclrecordproto.AclRoot) { a.Identity = flip(c, a.Identity) },
		"masterKey=donor": func(a *aclrecordproto.AclRoot) { a.MasterKey = clone(dd.ar.MasterKey) },
		"masterKey+identitySig=donor": func(a *aclrecordproto.AclRoot) {
			a.MasterKey, a.IdentitySignature = clone(dd.ar.MasterKey), clone(dd.ar.IdentitySignature)
		},
		"spaceId=donor": func(a *aclrecordproto.AclRoot) { a.SpaceId = donor.hdrId },
		"spaceId=toggle": func(a *aclrecordproto.AclRoot) {
			if a.SpaceId == "" {
				a.SpaceId = o.hdrId
			} else {
				a.SpaceId = ""
			}
		},
		"encryptedReadKey=flip":         func(a *aclrecordproto.AclRoot) { a.EncryptedReadKey = flip(c, a.EncryptedReadKey) },
		"encryptedReadKey=donor":        func(a *aclrecordproto.AclRoot) { a.EncryptedReadKey = append(clone(dd.ar.EncryptedReadKey), 1) },
		"timestamp+1":                   func(a *aclrecordproto.AclRoot) { a.Timestamp++ },
		"identitySignature=flip":        func(a *aclrecordproto.AclRoot) { a.IdentitySignature = flip(c, a.IdentitySignature) },
		"identitySignature=donor":       func(a *aclrecordproto.AclRoot) { a.IdentitySignature = clone(dd.ar.IdentitySignature) },
		"metadataPubKey=flip":           func(a *aclrecordproto.AclRoot) { a.MetadataPubKey = flip(c, a.MetadataPubKey) },
		"encryptedMetadataPrivKey=flip": func(a *aclrecordproto.AclRoot) { a.EncryptedMetadataPrivKey = flip(c, a.EncryptedMetadataPrivKey) },
		"encryptedOwnerMetadata=flip":   func(a *aclrecordproto.AclRoot) { a.EncryptedOwnerMetadata = flip(c, a.EncryptedOwnerMetadata) },
		"options=toggled": func(a *aclrecordproto.AclRoot) {
			if a.Options == nil {
				a.Options = &aclrecordproto.AclSpaceOptions{DeleteRestricted: true}
			} else {
				a.Options = nil
			}
		},
		"oneToOneInfo=toggled": func(a *aclrecordproto.AclRoot) {
			if a.OneToOneInfo == nil {
				a.OneToOneInfo = &aclrecordproto.AclOneToOneInfo{Owner: clone(a.Identity), Writers: [][]byte{clone(a.Identity), clone(dd.ar.Identity)}}
			} else {
				a.OneToOneInfo = nil
			}
		},
		"oneToOneInfo.writers=changed": func(a *aclrecordproto.AclRoot) {
			if a.OneToOneInfo != nil && len(a.OneToOneInfo.Writers) == 2 {
				a.OneToOneInfo.Writers[1] = clone(dd.ar.Identity)
			}
		},
		"oneToOneInfo.owner=changed": func(a *aclrecordproto.AclRoot) {
			if a.OneToOneInfo != nil {
				a.OneToOneInfo.Owner = clone(dd.ar.Identity)
			}
		},
	}
	for _, name := range sortedNames(arEdits) {
		d, _ := decode(o)
		arEdits[name](&d.ar)
		signed := must(d.ar.MarshalVT())
		if string(signed) == string(d0.rr.Payload) {
			continue
		}
		d.rr.Payload = signed
		out = append(out, mutant{p: o.withRaw("acl", must(d.rr.MarshalVT()), true, o), part: "acl", class: "field:AclRoot." + name})
	}
	// ---- RawRecord fields (outer; the acceptor fields are not covered by the owner's signature)
	rrEdits := map[string]func(r *consensusproto.RawRecord){
		"signature=donor":       func(r *consensusproto.RawRecord) { r.Signature = clone(dd.rr.Signature) },
		"signature=empty":       func(r *consensusproto.RawRecord) { r.Signature = nil },
		"signature=header-sig":  func(r *consensusproto.RawRecord) { r.Signature = clone(d0.rh.Signature) },
		"payload=donor":         func(r *consensusproto.RawRecord) { r.Payload = clone(dd.rr.Payload) },
		"acceptorIdentity=set":  func(r *consensusproto.RawRecord) { r.AcceptorIdentity = clone(dd.ar.Identity) },
		"acceptorSignature=set": func(r *consensusproto.RawRecord) { r.AcceptorSignature = clone(dd.rr.Signature) },
		"acceptorTimestamp=set": func(r *consensusproto.RawRecord) { r.AcceptorTimestamp = 1 + c.Rng.Int63n(1<<40) },
		"acceptor-all=set": func(r *consensusproto.RawRecord) {
			r.AcceptorIdentity, r.AcceptorSignature, r.AcceptorTimestamp = clone(dd.ar.Identity), clone(dd.rr.Signature), 12345
		},
	}
	for _, name := range sortedNames(rrEdits) {
		d, _ := decode(o)
		rrEdits[name](&d.rr)
		raw := must(d.rr.MarshalVT())
		if string(raw) == string(o.aclRaw) {
			continue
		}
		out = append(out, mutant{p: o.withRaw("acl", raw, true, o), part: "acl", class: "field:RawRecord." + name})
	}
	// ---- RootChange fields (signed)
	rcEdits := map[string]func(r *treechangeproto.RootChange){
		"aclHeadId=donor": func(r *treechangeproto.RootChange) { r.AclHeadId = donor.aclId },
		"aclHeadId=empty": func(r *treechangeproto.RootChange) { r.AclHeadId = "" },
		"spaceId=donor":   func(r *treechangeproto.RootChange) { r.SpaceId = donor.hdrId },
		"spaceId=toggle": func(r *treechangeproto.RootChange) {
			if r.SpaceId == "" {
				r.SpaceId = o.hdrId
			} else {
				r.SpaceId = ""
			}
		},
		"changeType+x":       func(r *treechangeproto.RootChange) { r.ChangeType += "x" },
		"timestamp+1":        func(r *treechangeproto.RootChange) { r.Timestamp++ },
		"seed=flip":          func(r *treechangeproto.RootChange) { r.Seed = flip(c, r.Seed) },
		"identity=donor":     func(r *treechangeproto.RootChange) { r.Identity = clone(dd.rc.Identity) },
		"changePayload=flip": func(r *treechangeproto.RootChange) { r.ChangePayload = flip(c, r.ChangePayload) },
		"isDerived=toggled":  func(r *treechangeproto.RootChange) { r.IsDerived = !r.IsDerived },
		"parentId=set":       func(r *treechangeproto.RootChange) { r.ParentId += "p" },
	}
	for _, name := range sortedNames(rcEdits) {
		d, _ := decode(o)
		rcEdits[name](&d.rc)
		signed := must(d.rc.MarshalVT())
		if string(signed) == string(d0.rt.Payload) {
			continue
		}
		d.rt.Payload = signed
		out = append(out, mutant{p: o.withRaw("settings", must(d.rt.MarshalVT()), true, o), part: "settings", class: "field:RootChange." + name})
	}
	// ---- RawTreeChange fields (outer)
	rtEdits := map[string]func(r *treechangeproto.RawTreeChange){
		"signature=donor":   func(r *treechangeproto.RawTreeChange) { r.Signature = clone(dd.rt.Signature) },
		"signature=empty":   func(r *treechangeproto.RawTreeChange) { r.Signature = nil },
		"signature=acl-sig": func(r *treechangeproto.RawTreeChange) { r.Signature = clone(d0.rr.Signature) },
		"payload=donor":     func(r *treechangeproto.RawTreeChange) { r.Payload = clone(dd.rt.Payload) },
	}
	for _, name := range sortedNames(rtEdits) {
		d, _ := decode(o)
		rtEdits[name](&d.rt)
		raw := must(d.rt.MarshalVT())
		if string(raw) == string(o.setRaw) {
			continue
		}
		out = append(out, mutant{p: o.withRaw("settings", raw, true, o), part: "settings", class: "field:RawTreeChange." + name})
	}
	return out, nil
}

func sortedNames[V any](m map[string]V) []string {
	var o []string
	for k := range m {
		o = append(o, k)
	}
	for i := 1; i < len(o); i++ {
		for j := i; j > 0 && o[j] < o[j-1]; j-- {
			o[j], o[j-1] = o[j-1], o[j]
		}
	}
	return o
}

// ---------------------------------------------------------------- re-encodings of the outer wrappers

// reencodings rewrite the two-field wrapper (payload=1, signature=2) of each raw part.
// shadow: a donor value placed BEFORE (decodes to the original) or AFTER (decodes to the donor's) the real field.
func reencodings(c *lib.Case, o, donor parts) []mutant {
	var out []mutant
	for _, part := range rawParts {
		raw := o.raw(part)
		f1, f2, rest, ok := splitWrapper(raw)
		if !ok {
			continue
		}
		d1, _, _, dok := splitWrapper(donor.raw(part))
		enc := func(fields ...[]byte) []byte {
			var b []byte
			for _, f := range fields {
				b = append(b, f...)
			}
			return b
		}
		field := func(num protowire.Number, v []byte) []byte {
			return protowire.AppendBytes(protowire.AppendTag(nil, num, protowire.BytesType), v)
		}
		add := func(class string, b []byte) {
			if string(b) == string(raw) {
				return
			}
			out = append(out, mutant{p: o.withRaw(part, b, true, o), part: part, class: "reencode:" + class})
		}
		add("fields-swapped", enc(field(2, f2), field(1, f1), rest))
		add("unknown-varint-appended", enc(raw, protowire.AppendVarint(protowire.AppendTag(nil, 15, protowire.VarintType), 1)))
		add("unknown-bytes-appended", enc(raw, field(14, randBytes(c, 5))))
		add("unknown-field-prepended", enc(field(13, randBytes(c, 3)), raw))
		add("signature-duplicated", enc(raw, field(2, f2)))
		add("payload-duplicated", enc(field(1, f1), raw))
		// non-minimal length prefix of field 1
		{
			b := protowire.AppendTag(nil, 1, protowire.BytesType)
			l := protowire.AppendVarint(nil, uint64(len(f1)))
			l[len(l)-1] |= 0x80
			l = append(l, 0)
			b = append(append(b, l...), f1...)
			add("nonminimal-length", enc(b, field(2, f2), rest))
		}
		// non-minimal tag of field 2
		{
			b := enc(field(1, f1), []byte{0x92, 0x00}, protowire.AppendBytes(nil, f2), rest)
			add("nonminimal-tag", b)
		}
		if dok {
			add("donor-payload-shadowed-before", enc(field(1, d1), field(1, f1), field(2, f2), rest))
			add("donor-payload-after(last-wins)", enc(field(1, f1), field(2, f2), rest, field(1, d1)))
		}
		add("empty-signature-before", enc(field(2, nil), field(1, f1), field(2, f2), rest))
		add("empty-signature-after(last-wins)", enc(field(1, f1), field(2, f2), rest, field(2, nil)))
	}
	return out
}

// splitWrapper extracts bytes fields 1 and 2 of a wrapper message; rest = all other fields verbatim.
func splitWrapper(raw []byte) (f1, f2, rest []byte, ok bool) {
	b := raw
	for len(b) > 0 {
		num, typ, n := protowire.ConsumeTag(b)
		if n < 0 {
			return nil, nil, nil, false
		}
		m := protowire.ConsumeFieldValue(num, typ, b[n:])
		if m < 0 {
			return nil, nil, nil, false
		}
		whole := b[:n+m]
		if typ == protowire.BytesType && (num == 1 || num == 2) {
			v, _ := protowire.ConsumeBytes(b[n:])
			if num == 1 {
				f1 = v
			} else {
				f2 = v
			}
		} else {
			rest = append(rest, whole...)
		}
		b = b[n+m:]
	}
	return f1, f2, rest, f1 != nil && f2 != nil
}
