package c15

import "fmt"

// The scripted workload replays, at every seed, the minimal schedules around
// the one window the random schedules found to matter: a remote fetch whose
// tombstone check passed, and a deletion record (and a deleter run) landing
// before the fetched tree is stored. See FINDINGS.md F-C15-1.
var scriptedVariants = []string{
	"object/record+deleter-mid-fetch",
	"object/record-mid-fetch,deleter-later",
	"child/record+deleter-mid-fetch",
	"object/record+deleter-mid-fetch,restart",
}

func (w *world) dropAll() {
	w.count("net.dropped.scripted", int64(len(w.pool)))
	w.pool = nil
}

func (w *world) deliverAll() {
	for i := 0; i < 200 && len(w.pool) > 0; i++ {
		w.stepDeliver(0)
	}
}

func (w *world) runScripted(variant int) (kinds []string, err error) {
	n0, n1 := w.nodes[0], w.nodes[1]
	next := func(kind string) {
		w.epilogue("step", true)
		w.step++
		kinds = append(kinds, kind)
	}
	w.step = 1
	// an object that only node 1 holds
	w.stepCreate(n1)
	parent := w.catalog[w.order[0]]
	w.stepEdit(n1, parent.Id)
	target := parent
	next("create")
	if variant == 2 {
		// node 0 learns the parent, then node 1 binds a child to it
		w.stepFetch(n0, parent.Id, true, false)
		next("fetch-unknown")
		w.stepChild(n1, parent)
		target = w.catalog[w.order[1]]
		w.stepEdit(n1, target.Id)
		next("child")
	}
	w.dropAll()
	// node 1 deletes it (a child is deleted through its parent): the record is in flight to node 0
	w.stepDelete(n1, parent.Id, false)
	next("delete")
	// node 0 fetches the target; its tombstone check passes; the record (and the deleter) land mid-fetch
	w.midDeleter = 1
	if variant == 1 {
		w.midDeleter = 2
	}
	w.stepFetch(n0, target.Id, true, true)
	w.midDeleter = 0
	next("fetch-race")
	if variant == 1 {
		w.mon.runDeleter(n0)
		next("deleter")
	}
	if variant == 3 {
		if err = w.stepRestart(n0, false); err != nil {
			return kinds, err
		}
		w.epilogue("restart", true)
		w.step++
		kinds = append(kinds, "restart")
		w.mon.runDeleter(n0)
		next("deleter")
	}
	// a later, unrelated attempt to open the deleted id
	w.stepFetch(n0, target.Id, false, false)
	next("fetch-tombstoned")
	w.stepEdit(n0, target.Id)
	next("edit")
	if len(w.mon.problems) == 0 {
		w.logf("scripted variant %q: no violation", scriptedVariants[variant])
	}
	return kinds, nil
}

func scriptedName(i int) string { return fmt.Sprintf("%d:%s", i, scriptedVariants[i]) }
