package c15

import (
	"context"
	"fmt"
	"sort"
	"strings"

	"github.com/anyproto/any-sync/commonspace/headsync/headstorage"
	"github.com/anyproto/any-sync/commonspace/object/tree/objecttree"
	"github.com/anyproto/any-sync/commonspace/object/tree/synctree"
	"github.com/anyproto/any-sync/commonspace/object/tree/treechangeproto"
	"github.com/anyproto/any-sync/commonspace/object/tree/treestorage"
	"github.com/anyproto/any-sync/commonspace/settings"
	"github.com/anyproto/any-sync/commonspace/spacesyncproto"
	"github.com/anyproto/any-sync/commonspace/sync/objectsync/objectmessages"
	"github.com/anyproto/any-sync/net/peer"
)

func payloadOf(root *treechangeproto.RawTreeChangeWithId) treestorage.TreeStorageCreatePayload {
	return treestorage.TreeStorageCreatePayload{
		RootRawChange: root,
		Changes:       []*treechangeproto.RawTreeChangeWithId{root},
		Heads:         []string{root.Id},
	}
}

func (w *world) addObject(o *object) {
	w.catalog[o.Id] = o
	w.order = append(w.order, o.Id)
}

// ---------------------------------------------------------------- steps

func (w *world) stepCreate(n *node) {
	seed := make([]byte, 16)
	w.rng.Read(seed)
	w.clock++
	root, err := objecttree.CreateObjectTreeRoot(objecttree.ObjectTreeCreatePayload{
		PrivKey:       n.keys.SignKey,
		ChangeType:    "verif.object",
		ChangePayload: []byte("payload"),
		SpaceId:       w.spaceId,
		IsEncrypted:   false,
		Seed:          seed,
		Timestamp:     1700000000 + w.clock,
	}, n.acl)
	if err != nil {
		w.count("harness.create_root_error", 1)
		w.logf("n%d create root error: %v", n.idx, err)
		return
	}
	o := &object{Id: root.Id, Payload: payloadOf(root), Creator: n.idx, Label: fmt.Sprintf("o%d", len(w.order))}
	w.addObject(o)
	tr, err := w.mon.putSyncTree(n, o, "create")
	if err != nil {
		return
	}
	n.tm.open[o.Id] = tr
	for k := w.rng.Intn(3); k > 0; k-- {
		w.stepEdit(n, o.Id)
	}
}

func (w *world) stepChild(n *node, parent *object) {
	w.clock++
	root, err := objecttree.DeriveObjectTreeRoot(objecttree.ObjectTreeDerivePayload{
		ChangeType:    fmt.Sprintf("verif.child.%d", w.clock),
		ChangePayload: []byte("child"),
		SpaceId:       w.spaceId,
		IsEncrypted:   false,
		ParentId:      parent.Id,
	}, n.acl)
	if err != nil {
		w.count("harness.derive_root_error", 1)
		return
	}
	o := &object{Id: root.Id, Payload: payloadOf(root), Parent: parent.Id, Creator: n.idx, Label: fmt.Sprintf("c%d(%s)", len(w.order), parent.Label)}
	w.addObject(o)
	tr, err := w.mon.putSyncTree(n, o, "create-child")
	if err != nil {
		return
	}
	n.tm.open[o.Id] = tr
	if w.rng.Intn(5) > 0 {
		w.stepEdit(n, o.Id)
	}
}

func (w *world) stepEdit(n *node, id string) {
	tr, err := n.tm.GetTree(bg, w.spaceId, id)
	if err != nil {
		w.count("edit.open_failed."+errClass(err), 1)
		return
	}
	w.clock++
	data := make([]byte, 8)
	w.rng.Read(data)
	tr.Lock()
	_, err = tr.AddContent(bg, objecttree.SignableChangeContent{
		Data:      data,
		Key:       n.keys.SignKey,
		Timestamp: 1700000000 + w.clock,
		DataType:  "verif",
	})
	tr.Unlock()
	w.count("edit."+class(n.status(id), true, true)+"."+errClass(err), 1)
	w.logf("n%d edit(%s) -> %s", n.idx, w.label(id), errClass(err))
}

func (w *world) stepDelete(n *node, id string, snapshot bool) {
	w.snapNext = snapshot
	e, ok := n.entry(id)
	cl := class(e.DeletedStatus, ok, n.hasStorage(id))
	err := n.settings.DeleteObject(bg, id)
	kind := "plain"
	if snapshot {
		kind = "snapshot"
	}
	w.count("delete.local."+kind+"."+cl+"."+errClass(err), 1)
	w.logf("n%d delete(%s,%s) pre=%s -> %s", n.idx, w.label(id), kind, cl, errClass(err))
	if err == nil {
		w.mon.deletions++
	}
}

// stepDeliver hands item pos of the pool to its node.
func (w *world) stepDeliver(pos int) {
	it := w.take(pos)
	n := w.nodes[it.To]
	id := it.ObjectId
	e, ok := n.entry(id)
	preSt := n.hasStorage(id)
	cl := class(e.DeletedStatus, ok, preSt)
	tomb := ok && e.DeletedStatus >= headstorage.DeletedStatusQueued
	wire0 := w.wireCount(n.idx, id)
	var err error
	switch it.Kind {
	case "hu":
		osm := &spacesyncproto.ObjectSyncMessage{}
		if err = osm.UnmarshalVT(it.Payload); err != nil {
			w.count("harness.decode_error", 1)
			return
		}
		hu := &objectmessages.HeadUpdate{}
		if err = hu.SetProtoMessage(osm); err != nil {
			w.count("harness.decode_error", 1)
			return
		}
		req, herr := n.objSync.HandleHeadUpdate(peer.CtxWithPeerId(bg, w.nodes[it.From].peerId), hu)
		err = herr
		if req != nil {
			w.push(&item{Kind: "req", From: n.idx, To: n.idx, ObjectId: req.ObjectId(), Req: req})
		}
		w.count("deliver.head_update."+w.idKind(id)+"."+cl+"."+errClass(err), 1)
		w.logf("n%d <- head-update(%s) #%d pre=%s -> %s req=%v", n.idx, w.label(id), it.Seq, cl, errClass(err), req != nil)
	case "req":
		err = n.objSync.ApplyRequest(bg, it.Req, reqSender{n: n})
		w.count("deliver.apply_request."+w.idKind(id)+"."+cl+"."+errClass(err), 1)
		w.logf("n%d apply-request(%s) #%d pre=%s -> %s", n.idx, w.label(id), it.Seq, cl, errClass(err))
	}
	if tomb {
		if it.Kind == "hu" && id != n.settingsId {
			w.mon.tombstonedAttempts++
		}
		det := map[string]any{"node": n.idx, "id": w.label(id), "kind": it.Kind, "before": cl, "error": fmt.Sprint(err)}
		if !preSt && n.hasStorage(id) {
			w.mon.violate("incoming-message-recreated-tombstoned-id:"+it.Kind, "an incoming message created storage for a tombstoned id", det)
		}
		if !preSt && w.wireCount(n.idx, id) != wire0 {
			w.mon.violate("incoming-message-request-for-tombstoned-id:"+it.Kind, "an incoming message for a tombstoned id without local storage made the node send a request", det)
		}
		if n.status(id) < e.DeletedStatus {
			w.mon.violate("incoming-message-reset-tombstone:"+it.Kind, "an incoming message lowered the tombstone status", det)
		}
	}
}

func (w *world) idKind(id string) string {
	if o, ok := w.catalog[id]; ok {
		if o.Parent != "" {
			return "child"
		}
		return "object"
	}
	return "settings"
}

func (w *world) stepPut(n *node, o *object) {
	n.tm.closeTree(o.Id)
	tr, err := w.mon.putSyncTree(n, o, "put")
	if err == nil {
		n.tm.open[o.Id] = tr
	}
}

func (w *world) stepFetch(n *node, id string, withPeer bool, race bool) {
	n.tm.closeTree(id)
	ctx := bg
	if withPeer {
		ctx = peer.CtxWithPeerId(bg, w.other(n).peerId)
	}
	via := "fetch"
	if race {
		via = "fetch-race"
		w.midFetch = func() {
			for pos, it := range w.pool {
				if it.Kind == "hu" && it.To == n.idx && it.ObjectId == n.settingsId {
					w.count("race.settings_update_delivered_mid_fetch", 1)
					w.stepDeliver(pos)
					// the deletion worker is notified by the state update and is
					// just as concurrent with the fetch as the settings update
					if w.midDeleter == 1 || (w.midDeleter == 0 && w.rng.Intn(2) == 0) {
						w.count("race.deleter_run_mid_fetch", 1)
						w.mon.runDeleter(n)
					}
					// look at the node inside the window as well
					w.mon.observe(n, "live", "mid-fetch")
					return
				}
			}
		}
	}
	tr, err := w.mon.buildOrGetRemote(n, ctx, id, via)
	w.midFetch = nil
	if err == nil {
		n.tm.open[id] = tr
	}
}

func (w *world) stepSyncSettings(n *node) {
	err := n.settings.SyncWithPeer(bg, fakePeer{id: w.other(n).peerId})
	w.count("settings.sync_with_peer."+errClass(err), 1)
	w.logf("n%d settings.SyncWithPeer -> %s", n.idx, errClass(err))
}

func (w *world) stepRestart(n *node, deleterFirst bool) error {
	w.mon.restartsOrDeleter++
	w.mon.per[n.idx].restarts++
	w.count("restart", 1)
	if w.restarted == nil {
		w.restarted = map[int]bool{}
	}
	w.restarted[n.idx] = true
	w.logf("n%d restart (deleter before settings init: %v)", n.idx, deleterFirst)
	return n.restart(deleterFirst)
}

// ---------------------------------------------------------------- schedule

type choice struct {
	kind   string
	weight int
	run    func() error
}

func (w *world) idsWhere(n *node, pred func(o *object, e headstorage.HeadsEntry, hasEntry, hasStorage bool) bool) []*object {
	var out []*object
	for _, id := range w.order {
		o := w.catalog[id]
		v, cached := n.view[id]
		if !cached {
			v.e, v.hasEntry = n.entry(id)
			v.hasStorage = n.hasStorage(id)
		}
		if pred(o, v.e, v.hasEntry, v.hasStorage) {
			out = append(out, o)
		}
	}
	return out
}

func pick[T any](w *world, xs []T) T { return xs[w.rng.Intn(len(xs))] }

// nextStep builds the weighted list of enabled steps and runs one.
func (w *world) nextStep() (kind string, err error) {
	n := w.nodes[w.rng.Intn(2)]
	tomb := w.idsWhere(n, func(o *object, e headstorage.HeadsEntry, ok, st bool) bool {
		return ok && e.DeletedStatus >= headstorage.DeletedStatusQueued
	})
	alive := w.idsWhere(n, func(o *object, e headstorage.HeadsEntry, ok, st bool) bool {
		return ok && e.DeletedStatus == headstorage.DeletedStatusNotDeleted
	})
	withStorage := w.idsWhere(n, func(o *object, e headstorage.HeadsEntry, ok, st bool) bool { return st })
	parents := w.idsWhere(n, func(o *object, e headstorage.HeadsEntry, ok, st bool) bool { return ok && o.Parent == "" })
	unknown := w.idsWhere(n, func(o *object, e headstorage.HeadsEntry, ok, st bool) bool { return !ok })
	// objects the other node can still edit although they are tombstoned here
	o2 := w.other(n)
	remoteEditable := w.idsWhere(o2, func(o *object, e headstorage.HeadsEntry, ok, st bool) bool {
		return st && n.status(o.Id) >= headstorage.DeletedStatusQueued
	})
	var all []*object
	for _, id := range w.order {
		all = append(all, w.catalog[id])
	}
	var cs []choice
	add := func(kind string, weight int, run func() error) {
		if weight > 0 {
			cs = append(cs, choice{kind, weight, run})
		}
	}
	if len(w.order) < 10 {
		wt := 4
		if len(w.order) < 3 {
			wt = 12
		}
		add("create", wt, func() error { w.stepCreate(n); return nil })
	}
	if len(parents) > 0 && len(w.order) < 14 {
		add("child", 5, func() error {
			// prefer tombstoned parents half of the time (late child)
			var tp []*object
			for _, p := range parents {
				if n.status(p.Id) >= headstorage.DeletedStatusQueued {
					tp = append(tp, p)
				}
			}
			if len(tp) > 0 && w.rng.Intn(2) == 0 {
				w.stepChild(n, pick(w, tp))
			} else {
				w.stepChild(n, pick(w, parents))
			}
			return nil
		})
	}
	if len(withStorage) > 0 {
		add("edit", 5, func() error { w.stepEdit(n, pick(w, withStorage).Id); return nil })
	}
	if len(remoteEditable) > 0 {
		add("edit-remote-of-tombstoned", 5, func() error { w.stepEdit(o2, pick(w, remoteEditable).Id); return nil })
	}
	if len(alive) > 0 {
		add("delete", 7, func() error { w.stepDelete(n, pick(w, alive).Id, w.rng.Intn(3) == 0); return nil })
	}
	if len(tomb) > 0 {
		add("delete-again", 1, func() error { w.stepDelete(n, pick(w, tomb).Id, w.rng.Intn(3) == 0); return nil })
		add("put-tombstoned", 5, func() error { w.stepPut(n, pick(w, tomb)); return nil })
		add("fetch-tombstoned", 5, func() error { w.stepFetch(n, pick(w, tomb).Id, w.rng.Intn(4) > 0, false); return nil })
	}
	if len(unknown) > 0 {
		add("put-unknown", 2, func() error { w.stepPut(n, pick(w, unknown)); return nil })
		add("fetch-unknown", 3, func() error { w.stepFetch(n, pick(w, unknown).Id, true, w.rng.Intn(2) == 0); return nil })
	}
	if len(all) > 0 {
		add("put-any", 1, func() error { w.stepPut(n, pick(w, all)); return nil })
		add("fetch-any", 1, func() error { w.stepFetch(n, pick(w, all).Id, w.rng.Intn(2) == 0, false); return nil })
	}
	if len(w.pool) > 0 {
		dwt := 8 + 2*len(w.pool)
		if dwt > 28 {
			dwt = 28
		}
		add("deliver", dwt, func() error { w.stepDeliver(w.rng.Intn(len(w.pool))); return nil })
		add("drop", 1, func() error {
			it := w.take(w.rng.Intn(len(w.pool)))
			w.count("net.dropped."+it.Kind, 1)
			w.logf("drop #%d %s(%s) to n%d", it.Seq, it.Kind, w.label(it.ObjectId), it.To)
			return nil
		})
	}
	if len(n.tm.open) > 0 {
		add("close-tree", 2, func() error {
			var ids []string
			for id := range n.tm.open {
				ids = append(ids, id)
			}
			sort.Strings(ids)
			id := pick(w, ids)
			n.tm.closeTree(id)
			w.logf("n%d close(%s)", n.idx, w.label(id))
			return nil
		})
	}
	add("sync-settings", 1, func() error { w.stepSyncSettings(n); return nil })
	dw := 3
	if len(n.delState.GetQueued()) > 0 {
		dw = 6
	}
	add("deleter", dw, func() error { w.mon.runDeleter(n); return nil })
	add("restart", 3, func() error { return w.stepRestart(n, w.rng.Intn(3) == 0) })
	total := 0
	for _, c := range cs {
		total += c.weight
	}
	r := w.rng.Intn(total)
	for _, c := range cs {
		if r < c.weight {
			return c.kind, c.run()
		}
		r -= c.weight
	}
	return "", nil
}

// epilogue: the asynchronous head updater of each node makes progress (all,
// some, or none of the pending notifications), then both nodes are observed.
func (w *world) epilogue(tag string, quiesce bool) {
	for _, n := range w.nodes {
		// the head updater is an asynchronous FIFO consumer: between two looks
		// of the monitor it may have consumed everything, a prefix, exactly one
		// notification (slow phase) or nothing (stalled phase)
		if quiesce {
			n.drain(-1)
			n.stall, n.slow = 0, 0
			continue
		}
		if n.stall > 0 {
			n.stall--
			if len(n.obsQ) > 0 {
				w.count("diffmanager.no_drain", 1)
			}
			continue
		}
		if n.slow > 0 {
			n.slow--
			if len(n.obsQ) > 0 {
				n.drain(1)
				w.count("diffmanager.single_drain", 1)
			}
			continue
		}
		switch r := w.rng.Intn(20); {
		case r < 11:
			n.drain(-1)
		case r < 13:
			if len(n.obsQ) > 0 {
				n.drain(w.rng.Intn(len(n.obsQ) + 1))
				w.count("diffmanager.partial_drain", 1)
			}
		case r < 15:
			if len(n.obsQ) > 0 {
				w.count("diffmanager.no_drain", 1)
			}
		case r < 17:
			n.stall = 1 + w.rng.Intn(3)
			w.count("diffmanager.stall_phase", 1)
		default:
			n.slow = 2 + w.rng.Intn(6)
			w.count("diffmanager.slow_phase", 1)
		}
	}
	for _, n := range w.nodes {
		// the key of a violation only says whether the observed node has just
		// been rebuilt from disk; the step kind goes into the witness
		phase := "live"
		if w.restarted[n.idx] {
			phase = "restart"
		}
		w.mon.observe(n, phase, tag)
		sig := fmt.Sprintf("%d|%s", n.updates, strings.Join(n.settings.Heads(), ","))
		nm := w.mon.per[n.idx]
		if sig != nm.settingsSig || phase == "restart" {
			nm.settingsSig = sig
			w.mon.checkSettings(n, phase+"/"+tag)
		}
	}
	w.restarted = map[int]bool{}
}

func (w *world) settingsChangeIds(n *node) map[string]bool {
	out := map[string]bool{}
	n.settings.Lock()
	defer n.settings.Unlock()
	_ = n.settings.Storage().GetAfterOrder(bg, "", func(_ context.Context, ch objecttree.StorageChange) (bool, error) {
		out[ch.Id] = true
		return true, nil
	})
	return out
}

// finale: everything in flight is delivered in random order, the settings
// trees exchange full syncs, every deleter runs, every node restarts; then the
// two nodes (which saw the deletion records in different orders) must agree.
func (w *world) finale() error {
	w.step++
	w.epilogue("finale:drain", true)
	rounds := 0
	for i := 0; i < 400; i++ {
		if len(w.pool) == 0 {
			if rounds >= 2 {
				break
			}
			rounds++
			for _, n := range w.nodes {
				w.stepSyncSettings(n)
			}
			continue
		}
		w.stepDeliver(w.rng.Intn(len(w.pool)))
		w.epilogue("finale:deliver", true)
	}
	w.count("finale.undelivered", int64(len(w.pool)))
	for _, n := range w.nodes {
		w.mon.runDeleter(n)
	}
	w.epilogue("finale:deleter", true)
	for _, n := range w.nodes {
		if err := w.stepRestart(n, false); err != nil {
			return err
		}
	}
	w.epilogue("restart", true)
	for _, n := range w.nodes {
		w.mon.runDeleter(n)
	}
	w.epilogue("finale:deleter", true)
	a, b := w.settingsChangeIds(w.nodes[0]), w.settingsChangeIds(w.nodes[1])
	same := len(a) == len(b)
	for id := range a {
		same = same && b[id]
	}
	if !same {
		w.count("finale.settings_logs_differ(not compared)", 1)
	} else {
		w.count("finale.settings_logs_equal", 1)
		sa, sb := w.nodes[0].lastState, w.nodes[1].lastState
		var diff []string
		for id := range sa {
			if _, ok := sb[id]; !ok {
				diff = append(diff, "only n0: "+w.label(id))
			}
		}
		for id := range sb {
			if _, ok := sa[id]; !ok {
				diff = append(diff, "only n1: "+w.label(id))
			}
		}
		if len(diff) > 0 {
			sort.Strings(diff)
			w.mon.violate("settings:nodes-disagree", "two nodes holding the same settings log derive different deleted-id sets", map[string]any{"difference": diff})
		}
	}
	for _, n := range w.nodes {
		for _, id := range w.mon.trackedIds(n) {
			e, ok := n.entry(id)
			if !ok {
				w.count("final.status.unknown", 1)
				continue
			}
			w.count("final.status."+statusName(e.DeletedStatus), 1)
			if e.DeletedStatus == headstorage.DeletedStatusQueued {
				w.count("final.queued."+map[bool]string{true: "with_storage", false: "without_storage"}[n.hasStorage(id)], 1)
			}
		}
	}
	return nil
}

var _ = synctree.ErrSyncTreeDeleted
var _ = settings.ErrAlreadyDeleted
