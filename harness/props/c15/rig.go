package c15

// The rig: two complete "nodes" of one space in one process. Per node the real
// stack is: any-store DB on disk, spacestorage, headstorage, ACL list,
// deletionstate, deletionmanager (Init only: its UpdateState is used, its
// background loop is never started), the deleter (through the verif hook),
// settings object + state builder + change factory on a real settings sync
// tree, headsync.DiffManager + ldiff, objectmanager, objectsync handler,
// synctree.PutSyncTree / BuildSyncTreeOrGetRemote. Harness-owned fakes: the
// SyncClient / request sender (an in-process "network" with an in-flight pool
// the scheduler controls), the app-level TreeManager (a cache of open trees
// that deletes through the real trees), the head-storage observer queue that
// stands for headsync's asynchronous FIFO head updater, and inert stubs for
// components that are never called (pool, key-value, peer).

import (
	"context"
	"errors"
	"fmt"
	"math/rand"
	"os"
	"path/filepath"
	"sync/atomic"

	anystore "github.com/anyproto/any-store"
	"google.golang.org/protobuf/proto"

	"github.com/anyproto/any-sync/accountservice"
	"github.com/anyproto/any-sync/app"
	"github.com/anyproto/any-sync/app/ldiff"
	"github.com/anyproto/any-sync/app/logger"
	"github.com/anyproto/any-sync/commonspace/deletionmanager"
	"github.com/anyproto/any-sync/commonspace/deletionstate"
	"github.com/anyproto/any-sync/commonspace/headsync"
	"github.com/anyproto/any-sync/commonspace/headsync/headstorage"
	"github.com/anyproto/any-sync/commonspace/object/accountdata"
	"github.com/anyproto/any-sync/commonspace/object/acl/list"
	"github.com/anyproto/any-sync/commonspace/object/acl/recordverifier"
	"github.com/anyproto/any-sync/commonspace/object/acl/syncacl/headupdater"
	"github.com/anyproto/any-sync/commonspace/object/keyvalue/kvinterfaces"
	"github.com/anyproto/any-sync/commonspace/object/tree/objecttree"
	"github.com/anyproto/any-sync/commonspace/object/tree/synctree"
	"github.com/anyproto/any-sync/commonspace/object/tree/synctree/response"
	"github.com/anyproto/any-sync/commonspace/object/tree/synctree/updatelistener"
	"github.com/anyproto/any-sync/commonspace/object/tree/treestorage"
	"github.com/anyproto/any-sync/commonspace/object/treemanager"
	"github.com/anyproto/any-sync/commonspace/objectmanager"
	"github.com/anyproto/any-sync/commonspace/settings"
	"github.com/anyproto/any-sync/commonspace/settings/settingsstate"
	"github.com/anyproto/any-sync/commonspace/spacepayloads"
	"github.com/anyproto/any-sync/commonspace/spacestate"
	"github.com/anyproto/any-sync/commonspace/spacestorage"
	"github.com/anyproto/any-sync/commonspace/spacesyncproto"
	"github.com/anyproto/any-sync/commonspace/sync/objectsync"
	"github.com/anyproto/any-sync/commonspace/sync/objectsync/objectmessages"
	"github.com/anyproto/any-sync/commonspace/sync/syncdeps"
	"github.com/anyproto/any-sync/commonspace/syncstatus"
	"github.com/anyproto/any-sync/consensus/consensusproto"
	"github.com/anyproto/any-sync/net/peer"
	"github.com/anyproto/any-sync/net/pool"
	"github.com/anyproto/any-sync/util/cidutil"
	"github.com/anyproto/any-sync/util/crypto"
)

var bg = context.Background()

// ---------------------------------------------------------------- world

// object is one tree known to the harness (catalog entry).
type object struct {
	Id      string
	Payload treestorage.TreeStorageCreatePayload
	Parent  string // bound-child parent id ("" for ordinary objects)
	Creator int
	Label   string // short name used in witnesses: o3, c5(o3)
}

// item is something the scheduler may deliver: a head update in flight to a
// node, or a request a node has queued for itself (request manager).
type item struct {
	Seq      int
	Kind     string // "hu" | "req"
	From, To int
	ObjectId string
	Payload  []byte           // hu: marshalled ObjectSyncMessage
	Req      syncdeps.Request // req
	Born     int
}

// wireReq is a request that left a node for the network.
type wireReq struct {
	From     int
	ObjectId string
	Kind     string // "new-tree" | "full-sync"
	Step     int
}

type world struct {
	rng     *rand.Rand
	dir     string
	spaceId string
	payload spacestorage.SpaceStorageCreatePayload
	aclRecs []*consensusproto.RawRecordWithId
	nodes   []*node
	catalog map[string]*object
	order   []string // catalog ids in creation order
	pool    []*item
	seq     int
	wire    []wireReq
	step    int
	clock   int64
	events  []string
	counts  map[string]int64
	// snapNext: what settings.DoSnapshot answers for the next local deletion
	snapNext bool
	// midFetch, when set, runs once inside the next new-tree request, between
	// the tombstone check and the arrival of the response.
	midFetch func()
	// midDeleter: does the deleter also run inside that window (0: PRNG, 1: yes, 2: no)
	midDeleter int
	mon        *monitor
	// restarted: nodes rebuilt from disk during the current step
	restarted map[int]bool
}

func (w *world) count(k string, n int64) { w.counts[k] += n }

func (w *world) logf(format string, a ...any) {
	w.events = append(w.events, fmt.Sprintf("%02d ", w.step)+fmt.Sprintf(format, a...))
}

func (w *world) label(id string) string {
	if o, ok := w.catalog[id]; ok {
		return o.Label
	}
	for _, n := range w.nodes {
		if id == n.settingsId {
			return "settings"
		}
	}
	if len(id) > 8 {
		return "?" + id[len(id)-6:]
	}
	return id
}

func (w *world) labels(ids []string) []string {
	out := make([]string, 0, len(ids))
	for _, id := range ids {
		out = append(out, w.label(id))
	}
	return out
}

func newWorld(dir string, rng *rand.Rand) (*world, error) {
	w := &world{rng: rng, dir: dir, catalog: map[string]*object{}, counts: map[string]int64{}}
	w.mon = newMonitor(w)
	var keys []*accountdata.AccountKeys
	for i := 0; i < 2; i++ {
		k, err := accountdata.NewRandom()
		if err != nil {
			return nil, err
		}
		keys = append(keys, k)
	}
	masterKey, _, err := crypto.GenerateRandomEd25519KeyPair()
	if err != nil {
		return nil, err
	}
	metaKey, _, err := crypto.GenerateRandomEd25519KeyPair()
	if err != nil {
		return nil, err
	}
	w.payload, err = spacepayloads.StoragePayloadForSpaceCreate(spacepayloads.SpaceCreatePayload{
		SigningKey:     keys[0].SignKey,
		SpaceType:      "verif.c15",
		ReplicationKey: 10,
		SpacePayload:   []byte("payload"),
		MasterKey:      masterKey,
		ReadKey:        crypto.NewAES(),
		MetadataKey:    metaKey,
		Metadata:       []byte("owner"),
	})
	if err != nil {
		return nil, fmt.Errorf("space payload: %w", err)
	}
	w.spaceId = w.payload.SpaceHeaderWithId.Id
	for i := 0; i < 2; i++ {
		n := &node{w: w, idx: i, peerId: fmt.Sprintf("peer-%d", i), keys: keys[i],
			dbPath: filepath.Join(dir, fmt.Sprintf("node-%d", i), "space.db")}
		if err := os.MkdirAll(filepath.Dir(n.dbPath), 0o755); err != nil {
			return nil, err
		}
		w.nodes = append(w.nodes, n)
		if err := n.start(true, false); err != nil {
			return nil, fmt.Errorf("start node %d: %w", i, err)
		}
	}
	// the owner admits node 1's account as a writer
	oa := w.nodes[0].acl
	oa.Lock()
	rec, err := oa.RecordBuilder().BuildAccountsAdd(list.AccountsAddPayload{Additions: []list.AccountAdd{
		{Identity: keys[1].SignKey.GetPublic(), Permissions: list.AclPermissionsWriter, Metadata: []byte("writer")}}})
	oa.Unlock()
	if err != nil {
		return nil, fmt.Errorf("accounts add: %w", err)
	}
	raw, err := rec.MarshalVT()
	if err != nil {
		return nil, err
	}
	id, err := cidutil.NewCidFromBytes(raw)
	if err != nil {
		return nil, err
	}
	rw := &consensusproto.RawRecordWithId{Payload: raw, Id: id}
	w.aclRecs = append(w.aclRecs, rw)
	for _, n := range w.nodes {
		n.acl.Lock()
		err := n.acl.AddRawRecord(rw)
		n.acl.Unlock()
		if err != nil {
			return nil, fmt.Errorf("node %d add acl record: %w", n.idx, err)
		}
		n.drainAll()
	}
	return w, nil
}

func (w *world) close() {
	for _, n := range w.nodes {
		n.stop()
	}
}

func (w *world) other(n *node) *node { return w.nodes[1-n.idx] }

func (w *world) byPeer(id string) *node {
	for _, n := range w.nodes {
		if n.peerId == id {
			return n
		}
	}
	return nil
}

func (w *world) push(it *item) {
	w.seq++
	it.Seq = w.seq
	it.Born = w.step
	w.pool = append(w.pool, it)
	w.count("net.queued."+it.Kind, 1)
}

func (w *world) take(pos int) *item {
	it := w.pool[pos]
	w.pool = append(w.pool[:pos], w.pool[pos+1:]...)
	return it
}

func (w *world) wireCount(from int, objectId string) int {
	c := 0
	for _, r := range w.wire {
		if r.From == from && r.ObjectId == objectId {
			c++
		}
	}
	return c
}

// ---------------------------------------------------------------- node

type node struct {
	w      *world
	idx    int
	peerId string
	keys   *accountdata.AccountKeys
	dbPath string
	up     bool

	db         anystore.DB
	space      spacestorage.SpaceStorage
	acl        list.AclList
	sacl       *fakeSyncAcl
	reg        *app.App
	delState   deletionstate.ObjectDeletionState
	delMgr     deletionmanager.DeletionManager
	deleter    deletionmanager.Deleter
	diff       ldiff.Diff
	dm         *headsync.DiffManager
	obsQ       []headstorage.HeadsEntry
	settings   settings.SettingsObject
	settingsId string
	objMgr     objectmanager.ObjectManager
	objSync    syncdeps.SyncHandler
	tm         *treeMgr
	client     *fakeClient
	// lastState is the settings state handed to the deletion manager most recently
	lastState map[string]struct{}
	updates   int
	// changes is the raw changes collection, used only to ask "is the root of
	// tree id stored", i.e. whether spacestorage.TreeStorage(id) would open
	changes anystore.Collection
	// view is the per-id snapshot taken by the last observation (reused by the
	// step generator; nothing happens between an observation and the next step)
	view map[string]idView
	// head-updater pacing chosen by the schedule (see epilogue)
	stall, slow int
}

type idView struct {
	e          headstorage.HeadsEntry
	hasEntry   bool
	hasStorage bool
}

func (n *node) start(create bool, deleterBeforeSettings bool) (err error) {
	w := n.w
	n.db, err = anystore.Open(bg, n.dbPath, &anystore.Config{ReadConnections: 2, SQLiteConnectionOptions: map[string]string{"synchronous": "off"}})
	if err != nil {
		return fmt.Errorf("open db: %w", err)
	}
	if create {
		n.space, err = spacestorage.Create(bg, n.db, w.payload)
	} else {
		n.space, err = spacestorage.New(bg, w.spaceId, n.db)
	}
	if err != nil {
		return fmt.Errorf("space storage: %w", err)
	}
	n.settingsId = n.space.StateStorage().SettingsId()
	aclSt, err := n.space.AclStorage()
	if err != nil {
		return err
	}
	n.acl, err = list.BuildAclListWithIdentity(n.keys, aclSt, recordverifier.NewValidateFull())
	if err != nil {
		return fmt.Errorf("acl: %w", err)
	}
	n.sacl = &fakeSyncAcl{AclList: n.acl}
	n.client = &fakeClient{RequestFactory: synctree.NewRequestFactory(w.spaceId), n: n}
	n.tm = &treeMgr{n: n, open: map[string]synctree.SyncTree{}}
	n.obsQ = nil
	n.lastState = nil
	n.changes = nil
	n.view = nil
	n.stall, n.slow = 0, 0

	// component registry used only for the Init of real components
	n.reg = new(app.App)
	st := &spacestate.SpaceState{SpaceId: w.spaceId, SpaceIsClosed: &atomic.Bool{}, TreesUsed: &atomic.Int32{}, TreeBuilderFunc: objecttree.BuildObjectTree}
	n.delState = deletionstate.New()
	n.objMgr = objectmanager.New(n.tm)
	n.delMgr = deletionmanager.New()
	n.objSync = objectsync.New()
	n.reg.Register(st).
		Register(n.space).
		Register(syncstatus.NewNoOpSyncStatus().(app.Component)).
		Register(n.sacl).
		Register(&stubPool{}).
		Register(&stubKeyValue{}).
		Register(n.delState).
		Register(n.objMgr).
		Register(n.delMgr).
		Register(&settingsComp{n: n}).
		Register(n.objSync)
	// deletion state: loads the tombstones from head storage (real Init + Run)
	if err = n.delState.Init(n.reg); err != nil {
		return err
	}
	if err = n.delState.(app.ComponentRunnable).Run(bg); err != nil {
		return fmt.Errorf("deletion state run: %w", err)
	}
	if err = n.delMgr.Init(n.reg); err != nil {
		return err
	}
	n.deleter = deletionmanager.VerifNewDeleter(n.space, n.delState, n.objMgr)
	n.settings = settings.NewSettingsObject(settings.Deps{
		BuildFunc: func(ctx context.Context, id string, listener updatelistener.UpdateListener) (synctree.SyncTree, error) {
			deps := n.deps()
			deps.Listener = listener
			return synctree.BuildSyncTreeOrGetRemote(ctx, id, deps)
		},
		Account:     &acctSvc{keys: n.keys},
		TreeManager: n.objMgr,
		Store:       n.space,
		DelManager:  &dmTap{n: n, DeletionManager: n.delMgr},
	}, w.spaceId)
	if err = n.objMgr.Init(n.reg); err != nil {
		return err
	}
	if err = n.objSync.Init(n.reg); err != nil {
		return err
	}
	// deletionmanager.Run starts its loop with an immediate deleter run, which
	// in the real space races with settings.Run: optionally model it here
	if deleterBeforeSettings {
		n.deleter.Delete(bg)
		w.count("deleter.runs_before_settings_init", 1)
	}
	if err = n.settings.Init(bg); err != nil {
		return fmt.Errorf("settings init: %w", err)
	}
	// headsync.Run: subscribe to head storage, then fill the diff
	n.diff = ldiff.New(32, 256)
	n.dm = headsync.NewDiffManager(n.diff, n.space, n.sacl, logger.NewNamed("verif.c15.headsync"), bg, n.delState)
	n.space.HeadStorage().AddObserver(&hsObserver{n: n})
	if err = n.dm.FillDiff(bg); err != nil {
		return fmt.Errorf("fill diff: %w", err)
	}
	n.up = true
	return nil
}

func (n *node) stop() {
	if !n.up {
		if n.db != nil {
			n.db.Close()
			n.db = nil
		}
		return
	}
	n.up = false
	for id, t := range n.tm.open {
		_ = t.Close()
		delete(n.tm.open, id)
	}
	_ = n.settings.Close()
	_ = n.delMgr.Close(bg)
	_ = n.db.Close()
	n.db = nil
}

func (n *node) restart(deleterBeforeSettings bool) error {
	n.stop()
	// the request manager's queue does not survive a restart
	w := n.w
	kept := w.pool[:0]
	for _, it := range w.pool {
		if it.Kind == "req" && it.To == n.idx {
			w.count("net.req_lost_by_restart", 1)
			continue
		}
		kept = append(kept, it)
	}
	w.pool = kept
	return n.start(false, deleterBeforeSettings)
}

func (n *node) deps() synctree.BuildDeps {
	return synctree.BuildDeps{
		SpaceId:         n.w.spaceId,
		SyncClient:      n.client,
		AclList:         n.acl,
		SpaceStorage:    n.space,
		OnClose:         func(id string) {},
		SyncStatus:      syncstatus.NewNoOpSyncStatus(),
		PeerGetter:      n,
		BuildObjectTree: objecttree.BuildObjectTree,
	}
}

// GetResponsiblePeers implements synctree.ResponsiblePeersGetter.
func (n *node) GetResponsiblePeers(ctx context.Context) ([]peer.Peer, error) {
	return []peer.Peer{fakePeer{id: n.w.other(n).peerId}}, nil
}

func (n *node) entry(id string) (headstorage.HeadsEntry, bool) {
	e, err := n.space.HeadStorage().GetEntry(bg, id)
	if err != nil {
		return headstorage.HeadsEntry{}, false
	}
	return e, true
}

func (n *node) status(id string) headstorage.DeletedStatus {
	e, ok := n.entry(id)
	if !ok {
		return headstorage.DeletedStatusNotDeleted
	}
	return e.DeletedStatus
}

func (n *node) hasStorage(id string) bool {
	if _, ok := n.entry(id); !ok {
		return false
	}
	if n.changes == nil {
		c, err := n.db.OpenCollection(bg, objecttree.CollName)
		if err != nil {
			_, terr := n.space.TreeStorage(bg, id)
			return terr == nil
		}
		n.changes = c
	}
	_, err := n.changes.FindId(bg, id)
	return err == nil
}

// drain delivers the first k queued head-storage notifications to the real
// DiffManager, in FIFO order (k < 0: all).
func (n *node) drain(k int) {
	for len(n.obsQ) > 0 && k != 0 {
		e := n.obsQ[0]
		n.obsQ = n.obsQ[1:]
		n.dm.UpdateHeads(e)
		n.w.count("diffmanager.update_heads", 1)
		k--
	}
}

func (n *node) drainAll() {
	if n.dm == nil {
		n.obsQ = nil
		return
	}
	n.drain(-1)
}

// ---------------------------------------------------------------- observers / taps

type hsObserver struct{ n *node }

func (o *hsObserver) OnUpdate(e headstorage.HeadsEntry) {
	e.Heads = append([]string(nil), e.Heads...)
	o.n.obsQ = append(o.n.obsQ, e)
}

// dmTap records the settings state on its way to the real deletion manager.
type dmTap struct {
	deletionmanager.DeletionManager
	n *node
}

func (d *dmTap) UpdateState(ctx context.Context, state *settingsstate.State) error {
	cp := make(map[string]struct{}, len(state.DeletedIds))
	for id := range state.DeletedIds {
		cp[id] = struct{}{}
	}
	d.n.w.mon.onSettingsState(d.n, cp)
	d.n.lastState = cp
	d.n.updates++
	return d.DeletionManager.UpdateState(ctx, state)
}

// ---------------------------------------------------------------- tree manager (harness)

type treeMgr struct {
	n    *node
	open map[string]synctree.SyncTree
	// errors of DeleteTree calls in the current deleter run
	deleteErrs map[string]string
	marked     []string
	deleted    []string
}

func (t *treeMgr) Init(a *app.App) error           { return nil }
func (t *treeMgr) Name() string                    { return treemanager.CName }
func (t *treeMgr) Run(ctx context.Context) error   { return nil }
func (t *treeMgr) Close(ctx context.Context) error { return nil }

func (t *treeMgr) GetTree(ctx context.Context, spaceId, treeId string) (objecttree.ObjectTree, error) {
	if tr, ok := t.open[treeId]; ok {
		return tr, nil
	}
	tr, err := t.n.w.mon.buildOrGetRemote(t.n, ctx, treeId, "get-tree")
	if err != nil {
		return nil, err
	}
	t.open[treeId] = tr
	return tr, nil
}

func (t *treeMgr) ValidateAndPutTree(ctx context.Context, spaceId string, payload treestorage.TreeStorageCreatePayload) error {
	return errors.New("not used")
}

func (t *treeMgr) MarkTreeDeleted(ctx context.Context, spaceId, treeId string) error {
	t.marked = append(t.marked, treeId)
	return nil
}

func (t *treeMgr) DeleteTree(ctx context.Context, spaceId, treeId string) (err error) {
	defer func() {
		if err != nil && t.deleteErrs != nil {
			t.deleteErrs[treeId] = err.Error()
		}
	}()
	tr, err := t.GetTree(ctx, spaceId, treeId)
	if err != nil {
		return err
	}
	// a cache may close the tree between handing it out and the Delete call (GC, TryClose, the space closing):
	// Delete then fails on the closed tree, nothing was removed, and the id has to stay queued for the next run
	// (added after seeded change C15-7 - the deleter treating "closed" as "gone" - was missed)
	if _, cached := t.open[treeId]; cached && t.n.w.rng.Intn(6) == 0 {
		t.closeTree(treeId)
		t.n.w.count("deleter.tree_closed_between_pick_and_delete", 1)
	}
	if err = tr.Delete(); err != nil {
		return err
	}
	t.deleted = append(t.deleted, treeId)
	if st, ok := t.open[treeId]; ok {
		delete(t.open, treeId)
		_ = st.Close()
	}
	return nil
}

func (t *treeMgr) closeTree(id string) {
	if st, ok := t.open[id]; ok {
		delete(t.open, id)
		_ = st.Close()
	}
}

// ---------------------------------------------------------------- network fakes

type fakeClient struct {
	synctree.RequestFactory
	n *node
}

func marshalOSM(pm proto.Message) ([]byte, error) {
	m, ok := pm.(*spacesyncproto.ObjectSyncMessage)
	if !ok {
		return nil, fmt.Errorf("unexpected proto %T", pm)
	}
	return m.MarshalVT()
}

func (f *fakeClient) Broadcast(ctx context.Context, hu *objectmessages.HeadUpdate) error {
	w := f.n.w
	o := w.other(f.n)
	cp := hu.Copy().(*objectmessages.HeadUpdate)
	cp.SetPeerId(o.peerId)
	pm, err := cp.ProtoMessage()
	if err != nil {
		return err
	}
	b, err := marshalOSM(pm)
	if err != nil {
		return err
	}
	w.push(&item{Kind: "hu", From: f.n.idx, To: o.idx, ObjectId: hu.ObjectId(), Payload: b})
	return nil
}

func (f *fakeClient) QueueRequest(ctx context.Context, req syncdeps.Request) error {
	f.n.w.push(&item{Kind: "req", From: f.n.idx, To: f.n.idx, ObjectId: req.ObjectId(), Req: req})
	return nil
}

func (f *fakeClient) SendTreeRequest(ctx context.Context, req syncdeps.Request, collector syncdeps.ResponseCollector) error {
	w := f.n.w
	w.wire = append(w.wire, wireReq{From: f.n.idx, ObjectId: req.ObjectId(), Kind: "new-tree", Step: w.step})
	w.count("net.wire.new_tree_request", 1)
	if mf := w.midFetch; mf != nil {
		w.midFetch = nil
		mf()
	}
	return f.n.roundTrip(ctx, req, collector)
}

// reqSender is the request manager's sender used by objectsync.ApplyRequest.
type reqSender struct{ n *node }

func (s reqSender) SendRequest(ctx context.Context, rq syncdeps.Request, collector syncdeps.ResponseCollector) error {
	w := s.n.w
	w.wire = append(w.wire, wireReq{From: s.n.idx, ObjectId: rq.ObjectId(), Kind: "full-sync", Step: w.step})
	w.count("net.wire.full_sync_request", 1)
	return s.n.roundTrip(ctx, rq, collector)
}

type noopUpdater struct{}

func (noopUpdater) UpdateQueueSize(size uint64, msgType int, add bool) {}

// roundTrip marshals the request, lets the addressed node's real object-sync
// handler serve it, and feeds the marshalled response stream to the collector.
func (n *node) roundTrip(ctx context.Context, rq syncdeps.Request, collector syncdeps.ResponseCollector) error {
	w := n.w
	to := w.byPeer(rq.PeerId())
	if to == nil || to == n {
		return fmt.Errorf("unknown peer %q", rq.PeerId())
	}
	pm, err := rq.Proto()
	if err != nil {
		return err
	}
	b, err := marshalOSM(pm)
	if err != nil {
		return err
	}
	osm := &spacesyncproto.ObjectSyncMessage{}
	if err = osm.UnmarshalVT(b); err != nil {
		return err
	}
	breq := objectmessages.NewByteRequest(n.peerId, osm.SpaceId, osm.ObjectId, osm.Payload)
	var batches [][]byte
	counter, serr := to.objSync.HandleStreamRequest(peer.CtxWithPeerId(bg, n.peerId), breq, noopUpdater{}, func(resp proto.Message) error {
		rb, merr := marshalOSM(resp)
		if merr != nil {
			return merr
		}
		batches = append(batches, rb)
		return nil
	})
	if counter != nil {
		w.push(&item{Kind: "req", From: to.idx, To: to.idx, ObjectId: counter.ObjectId(), Req: counter})
	}
	if serr != nil {
		w.count("net.serve_errors", 1)
		return fmt.Errorf("remote: %w", serr)
	}
	for _, rb := range batches {
		rosm := &spacesyncproto.ObjectSyncMessage{}
		if err = rosm.UnmarshalVT(rb); err != nil {
			return err
		}
		resp, ok := collector.NewResponse().(*response.Response)
		if !ok {
			return errors.New("unexpected response type")
		}
		if err = resp.SetProtoMessage(rosm); err != nil {
			return err
		}
		if err = collector.CollectResponse(ctx, to.peerId, rq.ObjectId(), resp); err != nil {
			return err
		}
	}
	if len(batches) == 0 {
		return errors.New("empty response stream")
	}
	return nil
}

// ---------------------------------------------------------------- inert stubs

type fakePeer struct {
	peer.Peer
	id string
}

func (p fakePeer) Id() string { return p.id }

type fakeSyncAcl struct {
	list.AclList
	syncdeps.ObjectSyncHandler
}

func (f *fakeSyncAcl) Init(a *app.App) error                             { return nil }
func (f *fakeSyncAcl) Name() string                                      { return "common.acl.syncacl" }
func (f *fakeSyncAcl) Run(ctx context.Context) error                     { return nil }
func (f *fakeSyncAcl) Close(ctx context.Context) error                   { return nil }
func (f *fakeSyncAcl) SyncWithPeer(ctx context.Context, p peer.Peer) error { return nil }
func (f *fakeSyncAcl) SetAclUpdater(updater headupdater.AclUpdater)      {}

type stubPool struct{ pool.Service }

func (s *stubPool) Init(a *app.App) error { return nil }
func (s *stubPool) Name() string          { return pool.CName }

type stubKeyValue struct{ kvinterfaces.KeyValueService }

func (s *stubKeyValue) Init(a *app.App) error { return nil }
func (s *stubKeyValue) Name() string          { return kvinterfaces.CName }

type acctSvc struct{ keys *accountdata.AccountKeys }

func (a *acctSvc) Init(*app.App) error               { return nil }
func (a *acctSvc) Name() string                      { return accountservice.CName }
func (a *acctSvc) Account() *accountdata.AccountKeys { return a.keys }

// settingsComp is what objectmanager.Init looks up to reserve the settings object.
type settingsComp struct{ n *node }

func (s *settingsComp) Init(a *app.App) error           { return nil }
func (s *settingsComp) Name() string                    { return settings.CName }
func (s *settingsComp) Run(ctx context.Context) error   { return nil }
func (s *settingsComp) Close(ctx context.Context) error { return nil }
func (s *settingsComp) DeleteTree(ctx context.Context, id string) error {
	return s.n.settings.DeleteObject(ctx, id)
}
func (s *settingsComp) SettingsObject() settings.SettingsObject { return s.n.settings }
