package c15

// The monitor: observations at the API boundary after every step and around
// every attempt on an id, checked against the statement of C15. It keeps its
// own memory of what it has seen (statuses, advertised ids, deleted-id sets)
// per node; that memory survives node restarts.

import (
	"context"
	"errors"
	"fmt"
	"sort"
	"strings"

	"github.com/anyproto/any-sync/commonspace/headsync/headstorage"
	"github.com/anyproto/any-sync/commonspace/object/tree/objecttree"
	"github.com/anyproto/any-sync/commonspace/object/tree/synctree"
	"github.com/anyproto/any-sync/commonspace/object/tree/treestorage"
	"github.com/anyproto/any-sync/commonspace/settings/settingsstate"
	"github.com/anyproto/any-sync/commonspace/spacestorage"
	"github.com/anyproto/any-sync/commonspace/spacesyncproto"
	"github.com/anyproto/any-sync/net/peer"
	"github.com/anyproto/any-sync/util/crypto"
)

type problem struct {
	Key    string
	What   string
	Detail map[string]any
}

type nodeMon struct {
	status      map[string]headstorage.DeletedStatus
	hadEntry    map[string]bool
	absent      map[string]bool // recorded and not advertised at an earlier observation
	exists      map[string]bool
	settingsMax map[string]struct{}
	settingsSig string
	restarts    int
}

type monitor struct {
	w        *world
	per      []*nodeMon
	problems []problem
	seenKeys map[string]bool
	// evidence
	tombstonedAttempts int
	deletions          int
	restartsOrDeleter  int
	arrivalOrders      map[string]bool
}

func newMonitor(w *world) *monitor {
	m := &monitor{w: w, seenKeys: map[string]bool{}, arrivalOrders: map[string]bool{}}
	for i := 0; i < 2; i++ {
		m.per = append(m.per, &nodeMon{status: map[string]headstorage.DeletedStatus{}, hadEntry: map[string]bool{},
			absent: map[string]bool{}, exists: map[string]bool{}, settingsMax: map[string]struct{}{}})
	}
	return m
}

func (m *monitor) violate(key, what string, detail map[string]any) {
	if m.seenKeys[key] {
		m.w.count("monitor.repeated_violation", 1)
		return
	}
	m.seenKeys[key] = true
	if detail == nil {
		detail = map[string]any{}
	}
	detail["step"] = m.w.step
	m.problems = append(m.problems, problem{Key: key, What: what, Detail: detail})
	m.w.logf("!! %s: %s", key, what)
}

func statusName(s headstorage.DeletedStatus) string {
	switch s {
	case headstorage.DeletedStatusNotDeleted:
		return "alive"
	case headstorage.DeletedStatusQueued:
		return "queued"
	case headstorage.DeletedStatusDeleted:
		return "deleted"
	}
	return fmt.Sprintf("status(%d)", int(s))
}

func class(st headstorage.DeletedStatus, hasEntry, hasStorage bool) string {
	s := statusName(st)
	if !hasEntry {
		s = "unknown"
	}
	if hasStorage {
		return s + "+storage"
	}
	return s + "-nostorage"
}

func errClass(err error) string {
	switch {
	case err == nil:
		return "ok"
	case errors.Is(err, spacestorage.ErrTreeStorageAlreadyDeleted):
		return "already-deleted"
	case errors.Is(err, treestorage.ErrUnknownTreeId):
		return "unknown-tree"
	case errors.Is(err, treestorage.ErrTreeExists):
		return "tree-exists"
	case errors.Is(err, objecttree.ErrParentNotFound):
		return "parent-not-found"
	case errors.Is(err, synctree.ErrSyncTreeDeleted):
		return "sync-tree-deleted"
	}
	s := err.Error()
	if i := strings.LastIndex(s, ": "); i >= 0 && len(s)-i < 60 {
		s = s[i+2:]
	}
	if len(s) > 50 {
		s = s[:50]
	}
	return "err:" + s
}

// ---------------------------------------------------------------- attempts

// buildOrGetRemote wraps every call of the real BuildSyncTreeOrGetRemote.
func (m *monitor) buildOrGetRemote(n *node, ctx context.Context, id, via string) (synctree.SyncTree, error) {
	w := m.w
	e, hasEntry := n.entry(id)
	pre := e.DeletedStatus
	preSt := n.hasStorage(id)
	wire0 := w.wireCount(n.idx, id)
	var parentPre headstorage.DeletedStatus
	obj := w.catalog[id]
	if obj != nil && obj.Parent != "" {
		parentPre = n.status(obj.Parent)
	}
	tr, err := synctree.BuildSyncTreeOrGetRemote(ctx, id, n.deps())
	wire1 := w.wireCount(n.idx, id)
	postSt := n.hasStorage(id)
	cl := class(pre, hasEntry, preSt)
	w.count("open."+via+"."+cl+"."+errClass(err), 1)
	w.logf("n%d open(%s) %s via=%s pre=%s -> %s wire+%d", n.idx, w.label(id), map[bool]string{true: "peer", false: "nopeer"}[ctxHasPeer(ctx)], via, cl, errClass(err), wire1-wire0)
	if hasEntry && pre >= headstorage.DeletedStatusQueued && !preSt {
		m.tombstonedAttempts++
		w.count("attempt.open_tombstoned_nostorage."+statusName(pre)+"."+errClass(err), 1)
		det := map[string]any{"node": n.idx, "id": w.label(id), "via": via, "status_before": statusName(pre), "error": fmt.Sprint(err), "requests_sent": wire1 - wire0}
		if err == nil {
			m.violate("open-tombstoned-id:succeeded:"+via, "opening / fetching a tombstoned id without local storage succeeded", det)
		} else if !errors.Is(err, spacestorage.ErrTreeStorageAlreadyDeleted) {
			m.violate("open-tombstoned-id:wrong-error:"+via, "opening / fetching a tombstoned id without local storage did not fail as already deleted", det)
		}
		if wire1 != wire0 {
			m.violate("open-tombstoned-id:request-sent:"+via, "a request for a tombstoned id left the node", det)
		}
		if postSt {
			m.violate("open-tombstoned-id:storage-created:"+via, "storage of a tombstoned id was created", det)
		}
	}
	if hasEntry && pre == headstorage.DeletedStatusDeleted && preSt {
		// not the carve-out: only a *queued* id may still be opened from its
		// local storage; "deleted" means the deleter is done with it
		m.tombstonedAttempts++
		w.count("attempt.open_deleted_with_leftover_storage."+errClass(err), 1)
		if err == nil {
			m.violate("open-deleted-id:succeeded:leftover-storage", "an id whose tombstone status is 'deleted' was opened from storage that exists locally after its deletion",
				map[string]any{"node": n.idx, "id": w.label(id), "via": via, "status_before": statusName(pre), "storage_before": preSt})
		}
	}
	if !preSt && postSt {
		// the fetch created the storage: did it also move the tombstone backwards
		// (the look inside the fetch window saw the status the deleter had written)?
		nm := m.per[n.idx]
		if prev, now := nm.status[id], n.status(id); prev == headstorage.DeletedStatusDeleted && now < prev {
			m.violate("fetch-in-flight:tombstone-reset:deleted->"+statusName(now), "the storage creation of a fetch that was in flight when the id was deleted moved its tombstone status backwards",
				map[string]any{"node": n.idx, "id": w.label(id), "via": via, "status_inside_window": statusName(prev), "status_after": statusName(now)})
			nm.status[id] = now
		}
	}
	if err == nil && !preSt && postSt && obj != nil && obj.Parent != "" {
		m.lateChild(n, obj, parentPre, "fetch")
	}
	if !preSt && postSt && pre == headstorage.DeletedStatusNotDeleted && n.status(id) >= headstorage.DeletedStatusQueued && (obj == nil || obj.Parent == "") {
		// tombstone arrived while the fetch was in flight: the fetch itself is not
		// judged (it started before the deletion was recorded), its consequences are
		w.count("race.fetch_completed_after_tombstone."+statusName(n.status(id)), 1)
		w.logf("n%d storage of %s created by a fetch that was in flight when the tombstone (%s) was recorded", n.idx, w.label(id), statusName(n.status(id)))
	}
	return tr, err
}

func ctxHasPeer(ctx context.Context) bool {
	_, err := peer.CtxPeerId(ctx)
	return err == nil
}

// putSyncTree wraps every call of the real PutSyncTree.
func (m *monitor) putSyncTree(n *node, obj *object, via string) (synctree.SyncTree, error) {
	w := m.w
	id := obj.Id
	e, hasEntry := n.entry(id)
	pre := e.DeletedStatus
	preSt := n.hasStorage(id)
	wire0 := w.wireCount(n.idx, id)
	var parentPre headstorage.DeletedStatus
	if obj.Parent != "" {
		parentPre = n.status(obj.Parent)
	}
	tr, err := synctree.PutSyncTree(bg, obj.Payload, n.deps())
	wire1 := w.wireCount(n.idx, id)
	postSt := n.hasStorage(id)
	cl := class(pre, hasEntry, preSt)
	w.count("put."+via+"."+cl+"."+errClass(err), 1)
	w.logf("n%d put(%s) via=%s pre=%s -> %s", n.idx, w.label(id), via, cl, errClass(err))
	if hasEntry && pre >= headstorage.DeletedStatusQueued {
		m.tombstonedAttempts++
		w.count("attempt.put_tombstoned."+cl+"."+errClass(err), 1)
		det := map[string]any{"node": n.idx, "id": w.label(id), "status_before": statusName(pre), "storage_before": preSt, "error": fmt.Sprint(err)}
		if err == nil {
			m.violate("put-tombstoned-id:succeeded", "PutSyncTree on a tombstoned id succeeded", det)
		} else if !errors.Is(err, spacestorage.ErrTreeStorageAlreadyDeleted) {
			m.violate("put-tombstoned-id:wrong-error", "PutSyncTree on a tombstoned id did not fail as already deleted", det)
		}
		if wire1 != wire0 {
			m.violate("put-tombstoned-id:request-sent", "a request for a tombstoned id left the node", det)
		}
		if postSt != preSt {
			m.violate("put-tombstoned-id:storage-changed", "PutSyncTree on a tombstoned id changed whether its storage exists", det)
		}
	}
	if err == nil && !preSt && postSt && obj.Parent != "" {
		m.lateChild(n, obj, parentPre, "put")
	}
	return tr, err
}

func (m *monitor) lateChild(n *node, obj *object, parentPre headstorage.DeletedStatus, via string) {
	w := m.w
	st := n.status(obj.Id)
	w.count("child.created."+via+".parent_"+statusName(parentPre)+".child_"+statusName(st), 1)
	if parentPre >= headstorage.DeletedStatusQueued {
		m.tombstonedAttempts++
		if st < headstorage.DeletedStatusQueued {
			m.violate("late-child-not-queued:"+via, "a child created after its parent's tombstone is not queued for deletion",
				map[string]any{"node": n.idx, "child": obj.Label, "parent_status": statusName(parentPre), "child_status": statusName(st)})
		}
	}
}

// ---------------------------------------------------------------- settings state

func (m *monitor) onSettingsState(n *node, cur map[string]struct{}) {
	nm := m.per[n.idx]
	var lost []string
	for id := range nm.settingsMax {
		if _, ok := cur[id]; !ok {
			lost = append(lost, m.w.label(id))
		}
	}
	if len(lost) > 0 {
		sort.Strings(lost)
		where := "live"
		if !n.up {
			where = "restart"
		}
		m.violate("settings:deleted-ids-shrunk:"+where, "the deleted-id set derived from the settings log lost ids",
			map[string]any{"node": n.idx, "lost": lost, "previous_size": len(nm.settingsMax), "size": len(cur)})
	}
	for id := range cur {
		nm.settingsMax[id] = struct{}{}
	}
	m.w.count("settings.state_updates", 1)
}

// checkSettings compares the incrementally maintained deleted-id set with the
// set the real state builder derives from the full history tree, and with the
// harness's own reading of the stored settings log.
func (m *monitor) checkSettings(n *node, tag string) {
	w := m.w
	so := n.settings
	so.Lock()
	defer so.Unlock()
	storage := so.Storage()
	rootId := so.Id()
	builder := objecttree.NewChangeBuilder(crypto.NewKeyStorage(), so.Header())
	model := map[string]struct{}{}
	type stored struct {
		seq  uint64
		ord  string
		desc string
	}
	var all []stored
	err := storage.GetAfterOrder(bg, "", func(ctx context.Context, ch objecttree.StorageChange) (bool, error) {
		if ch.Id == rootId {
			return true, nil
		}
		c, uerr := builder.Unmarshall(ch.RawTreeChangeWithId(), false)
		if uerr != nil {
			return false, uerr
		}
		sd := &spacesyncproto.SettingsData{}
		if uerr = sd.UnmarshalVT(c.Data); uerr != nil {
			return false, uerr
		}
		kind := "plain"
		if c.IsSnapshot {
			kind = "snap"
		}
		author := "?"
		for _, x := range w.nodes {
			if c.Identity != nil && c.Identity.Equals(x.keys.SignKey.GetPublic()) {
				author = fmt.Sprint(x.idx)
			}
		}
		for _, cnt := range sd.Content {
			if od := cnt.GetObjectDelete(); od != nil {
				model[od.GetId()] = struct{}{}
			}
		}
		all = append(all, stored{seq: ch.AddSeq, ord: ch.OrderId, desc: "a" + author + kind})
		return true, nil
	})
	if err != nil {
		w.count("settings.model_errors", 1)
		w.logf("n%d settings model error: %v", n.idx, err)
		return
	}
	sort.SliceStable(all, func(i, j int) bool { return all[i].seq < all[j].seq })
	var sig []string
	for _, s := range all {
		sig = append(sig, s.desc)
	}
	arrival := strings.Join(sig, ",")
	ht, err := objecttree.BuildHistoryTree(objecttree.HistoryTreeParams{Storage: storage, AclList: n.acl})
	if err != nil {
		w.count("settings.history_errors", 1)
		w.logf("n%d history tree error: %v", n.idx, err)
		return
	}
	full, err := settingsstate.NewStateBuilder().Build(ht, nil)
	if err != nil {
		w.count("settings.history_errors", 1)
		return
	}
	inc := n.lastState
	w.count("settings.comparisons", 1)
	if len(all) >= 2 {
		m.arrivalOrders[arrival] = true
	}
	diff := func(a, b map[string]struct{}) (onlyA []string) {
		for id := range a {
			if _, ok := b[id]; !ok {
				onlyA = append(onlyA, w.label(id))
			}
		}
		sort.Strings(onlyA)
		return
	}
	det := func(extra map[string]any) map[string]any {
		extra["node"] = n.idx
		extra["when"] = tag
		extra["arrival_order"] = arrival
		extra["incremental_size"] = len(inc)
		extra["scratch_size"] = len(full.DeletedIds)
		extra["log_size"] = len(model)
		return extra
	}
	if a, b := diff(full.DeletedIds, inc), diff(inc, full.DeletedIds); len(a)+len(b) > 0 {
		m.violate("settings:incremental-differs-from-scratch", "incrementally derived deleted ids differ from the set rebuilt from the full settings history",
			det(map[string]any{"only_in_scratch": a, "only_in_incremental": b}))
	}
	if a := diff(model, inc); len(a) > 0 {
		m.violate("settings:recorded-deletion-missing", "a deletion recorded in the stored settings log is missing from the derived deleted-id set",
			det(map[string]any{"missing": a}))
	}
	if a := diff(inc, model); len(a) > 0 {
		m.violate("settings:unrecorded-id", "the derived deleted-id set holds an id no stored settings change deletes",
			det(map[string]any{"extra": a}))
	}
	for id := range inc {
		if n.status(id) < headstorage.DeletedStatusQueued {
			m.violate("settings:deleted-id-without-tombstone", "an id in the settings deleted set has no tombstone in head storage",
				det(map[string]any{"id": w.label(id)}))
		}
	}
}

// ---------------------------------------------------------------- per-step observation

func (m *monitor) trackedIds(n *node) []string {
	seen := map[string]bool{}
	var ids []string
	add := func(id string) {
		if !seen[id] {
			seen[id] = true
			ids = append(ids, id)
		}
	}
	for _, id := range m.w.order {
		add(id)
	}
	nm := m.per[n.idx]
	for id := range nm.settingsMax {
		add(id)
	}
	for id := range nm.status {
		add(id)
	}
	sort.Strings(ids)
	return ids
}

func (m *monitor) observe(n *node, phase, tag string) {
	w := m.w
	nm := m.per[n.idx]
	adv := map[string]bool{}
	for _, id := range n.dm.AllIds() {
		adv[id] = true
	}
	quiescent := len(n.obsQ) == 0
	queued := map[string]bool{}
	for _, id := range n.delState.GetQueued() {
		queued[id] = true
	}
	w.count("observations", 1)
	n.view = map[string]idView{}
	for _, id := range m.trackedIds(n) {
		e, ok := n.entry(id)
		if _, inCatalog := w.catalog[id]; inCatalog {
			n.view[id] = idView{e: e, hasEntry: ok, hasStorage: ok && n.hasStorage(id)}
		}
		st := e.DeletedStatus
		prev := nm.status[id]
		if ok {
			nm.hadEntry[id] = true
		} else if nm.hadEntry[id] && prev >= headstorage.DeletedStatusQueued {
			m.violate("tombstone-entry-lost:"+phase, "the head-storage entry of a tombstoned id disappeared", map[string]any{"node": n.idx, "id": w.label(id), "was": statusName(prev)})
		}
		if st < prev {
			m.violate("status-regressed:"+statusName(prev)+"->"+statusName(st)+":"+phase, "tombstone status went backwards",
				map[string]any{"node": n.idx, "id": w.label(id), "before": statusName(prev), "now": statusName(st), "after": tag})
		}
		nm.status[id] = st
		recorded := ok && st >= headstorage.DeletedStatusQueued
		if recorded {
			det := map[string]any{"node": n.idx, "id": w.label(id), "status": statusName(st), "pending_head_notifications": len(n.obsQ), "after": tag}
			switch {
			case adv[id] && quiescent:
				m.violate("advertised-tombstoned-id:quiescent:"+phase, "a tombstoned id is in the advertised id set although every head-storage notification was processed", det)
			case adv[id] && nm.absent[id]:
				m.violate("advertised-tombstoned-id:returned:"+phase, "a tombstoned id returned to the advertised id set", det)
			}
			if !adv[id] {
				nm.absent[id] = true
			}
			if !n.delState.Exists(id) {
				w.count("obs.tombstone_not_in_memory_state", 1)
			}
		}
		ex := n.delState.Exists(id)
		if nm.exists[id] && !ex {
			m.violate("deletionstate-forgot-id:"+phase, "deletionstate.Exists went from true to false", map[string]any{"node": n.idx, "id": w.label(id)})
		}
		if ex {
			nm.exists[id] = true
		}
		if queued[id] && ok && st == headstorage.DeletedStatusNotDeleted {
			w.count("obs.memory_queued_but_storage_alive", 1)
		}
	}
}

// ---------------------------------------------------------------- deleter run

func (m *monitor) runDeleter(n *node) {
	w := m.w
	before := n.delState.GetQueued()
	sort.Strings(before)
	n.tm.deleteErrs = map[string]string{}
	n.tm.marked, n.tm.deleted = nil, nil
	n.deleter.Delete(bg)
	m.restartsOrDeleter++
	w.count("deleter.runs", 1)
	w.count("deleter.queued_before_run", int64(len(before)))
	w.count("deleter.tree_deleted", int64(len(n.tm.deleted)))
	w.count("deleter.marked_without_storage", int64(len(n.tm.marked)))
	w.logf("n%d deleter: queued=%v deleted=%v marked=%v errs=%v", n.idx, w.labels(before), w.labels(n.tm.deleted), w.labels(n.tm.marked), n.tm.deleteErrs)
	for _, id := range before {
		if e, bad := n.tm.deleteErrs[id]; bad && !strings.Contains(e, spacestorage.ErrTreeStorageAlreadyDeleted.Error()) && !strings.Contains(e, synctree.ErrSyncTreeDeleted.Error()) {
			w.count("deleter.skipped_tree_manager_error", 1)
			// the tree could not be deleted: the id must not be declared deleted while its storage is still there
			if n.status(id) == headstorage.DeletedStatusDeleted && n.hasStorage(id) {
				m.violate("deleter:marked-deleted-although-tree-delete-failed", "the tree manager reported an error for an id, yet the id was marked deleted and left the queue while its storage still exists",
					map[string]any{"node": n.idx, "id": w.label(id), "tree_manager_error": e})
			}
			continue
		}
		st := n.status(id)
		det := map[string]any{"node": n.idx, "id": w.label(id), "status": statusName(st), "queued_before": w.labels(before)}
		if st != headstorage.DeletedStatusDeleted {
			m.violate("deleter:queued-id-not-deleted", "after a deleter run a queued id whose storage could be removed is not marked deleted", det)
		}
		if n.hasStorage(id) {
			m.violate("deleter:storage-left", "after a deleter run the storage of a processed id still exists", det)
		}
		for _, cid := range w.order {
			c := w.catalog[cid]
			if c.Parent != id {
				continue
			}
			if _, ok := n.entry(cid); !ok {
				continue
			}
			if _, bad := n.tm.deleteErrs[cid]; bad {
				w.count("deleter.skipped_tree_manager_error", 1)
				continue
			}
			cst := n.status(cid)
			w.count("deleter.bound_child_after_run."+statusName(cst), 1)
			if cst < headstorage.DeletedStatusQueued {
				m.violate("deleter:bound-child-not-queued", "after its parent was deleted a bound child is not queued for deletion",
					map[string]any{"node": n.idx, "parent": w.label(id), "child": c.Label, "child_status": statusName(cst)})
			}
		}
	}
	n.tm.deleteErrs = nil
}
