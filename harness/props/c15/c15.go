// Package c15: deletion is permanent. Two complete nodes of one space (real
// storages, head storage, deletion state, deleter, settings object and state
// builder, DiffManager, object-sync handler, sync trees) are driven through
// PRNG-chosen schedules of creations, child creations, local deletions,
// deletion records arriving in any order, edits / head updates / put / fetch
// attempts on tombstoned ids, deleter runs and restarts; after every step the
// monitor observes tombstones, the advertised id set and the settings state.
package c15

import (
	"fmt"
	"os"
	"runtime/pprof"
	"sort"
	"strings"
	"sync"
	"time"

	"go.uber.org/zap"
	"go.uber.org/zap/zapcore"

	"github.com/anyproto/any-sync/app/logger"
	"github.com/anyproto/any-sync/commonspace/settings"

	"verifharness/lib"
)

type Prop struct{}

func (Prop) ID() string    { return "C15" }
func (Prop) Level() string { return "exploration" }
func (Prop) Rule() string {
	return "schedules: 15-40 PRNG-chosen steps over two real nodes of one space (create object, create bound child of a live or tombstoned parent, edit, local delete plain/snapshot, deliver/drop any in-flight head update or queued request in any order, PutSyncTree / BuildSyncTreeOrGetRemote on tombstoned, unknown or arbitrary ids with and without local storage and peer, fetch with a settings update (and possibly a deleter run) landing between the tombstone check and the arrival of the fetched tree, settings full sync, deleter run, restart with or without an early deleter run, tree close), each followed by a full / partial / empty drain of the head-updater queue and an observation of both nodes; then a finale (deliver everything, deleters, restarts, cross-node comparison). Non-trivial = before the finale the schedule recorded >= 1 deletion, made >= 1 attempt on a tombstoned id (put, open/fetch without local storage, incoming head update, late child) and had >= 1 restart or deleter run; distinct = sequence of step kinds. toctou-script: 4 fixed schedules around that fetch window (deterministic reproducer of F-C15-1 and its benign control)."
}
func (Prop) Assumptions() []string {
	return []string{
		"restarts are clean (close, reopen the database from disk); crash images are C10's subject",
		"head-storage notifications reach the DiffManager in FIFO order (headsync's head updater is a FIFO queue); the harness only chooses how far the queue has drained when it looks",
		"the app-level TreeManager is the harness's (a cache of open sync trees deleting through the real tree / storage), as in the repository's own space tests",
		"the deleter is run as a step through the verif hook instead of from deletionmanager's background loop",
		"a queued id whose storage still exists locally may be opened and edited (the deleter needs it); an id with status deleted may not",
		"a fetch whose tombstone check passed before the deletion was recorded is not judged itself; what it leaves behind is (later open attempts, status order)",
		"the settings object handles head updates and the deleter runs on goroutines that nothing serialises with a remote fetch, so the harness may run them inside its SyncClient.SendTreeRequest",
	}
}

func (Prop) Plan(tier string) []lib.Workload {
	n := 300
	if tier == "thorough" {
		n = 20000
	}
	wl := lib.Workload{Name: "schedules", Cases: n, MinNontrivial: n / 3, CaseTimeout: 10 * time.Minute}
	if tier == "thorough" {
		// many short batches: a child that dies costs little, and no batch comes
		// near the batch watchdog even on a loaded machine
		wl.Batches = 160
		wl.BatchTimeout = 90 * time.Minute
	}
	// the scripted workload is deterministic (4 fixed schedules, see scripted.go)
	return []lib.Workload{wl, {Name: "toctou-script", Cases: len(scriptedVariants), Batches: 1, MinNontrivial: len(scriptedVariants)}}
}

// ---------------------------------------------------------------- logging

type logSink struct {
	mu   sync.Mutex
	msgs map[string]int64
}

func (s *logSink) Enabled(l zapcore.Level) bool { return l >= zapcore.WarnLevel }
func (s *logSink) With([]zapcore.Field) zapcore.Core { return s }
func (s *logSink) Check(e zapcore.Entry, ce *zapcore.CheckedEntry) *zapcore.CheckedEntry {
	if s.Enabled(e.Level) {
		return ce.AddCore(e, s)
	}
	return ce
}
func (s *logSink) Write(e zapcore.Entry, f []zapcore.Field) error {
	s.mu.Lock()
	s.msgs[e.Level.String()+":"+e.LoggerName+":"+e.Message]++
	s.mu.Unlock()
	return nil
}
func (s *logSink) Sync() error { return nil }

var sink = &logSink{msgs: map[string]int64{}}

func init() {
	logger.SetDefault(zap.New(sink))
	logger.SetNamedLevels(nil)
}

// ---------------------------------------------------------------- case

var current *world

func (Prop) RunCase(c *lib.Case) {
	if pf := os.Getenv("C15_CPUPROFILE"); pf != "" {
		if f, err := os.Create(fmt.Sprintf("%s.%d", pf, c.Index)); err == nil {
			_ = pprof.StartCPUProfile(f)
			defer func() { pprof.StopCPUProfile(); f.Close() }()
		}
	}
	settings.DoSnapshot = func(treeLen int) bool { return current != nil && current.snapNext }
	sink.mu.Lock()
	sink.msgs = map[string]int64{}
	sink.mu.Unlock()
	dir := c.TmpDir
	if dir == "" {
		d, err := os.MkdirTemp("", "c15-")
		if err != nil {
			c.Inconclusive("tmp dir: " + err.Error())
			return
		}
		defer os.RemoveAll(d)
		dir = d
	}
	w, err := newWorld(dir, c.Rng)
	if err != nil {
		c.Inconclusive("rig construction failed: " + err.Error())
		return
	}
	current = w
	defer func() {
		current = nil
		w.close()
	}()
	c.Eval(1)
	steps := 15 + c.Rng.Intn(26)
	var kinds []string
	broken, brokenKey := "", ""
	if c.Workload == "toctou-script" {
		steps = 0
		var err error
		kinds, err = w.runScripted(c.Index)
		if err != nil {
			broken, brokenKey = "scripted: "+err.Error(), "scripted:"+errClass(err)
		}
		kinds = append([]string{scriptedName(c.Index)}, kinds...)
		c.Count("scripted."+scriptedName(c.Index), 1)
	}
	for i := 0; i < steps; i++ {
		w.step = i + 1
		kind, err := w.nextStep()
		if err != nil {
			broken = fmt.Sprintf("step %d (%s): %v", i+1, kind, err)
			brokenKey = kind + ":" + errClass(err)
			break
		}
		kinds = append(kinds, kind)
		c.Count("step."+kind, 1)
		tag := "step"
		if kind == "restart" {
			tag = "restart"
		}
		w.epilogue(tag, false)
	}
	nontrivial := w.mon.deletions >= 1 && w.mon.tombstonedAttempts >= 1 && w.mon.restartsOrDeleter >= 1
	if c.Workload == "toctou-script" {
		// scripted: non-trivial when the window was actually hit
		nontrivial = w.mon.deletions >= 1 && w.counts["race.settings_update_delivered_mid_fetch"] >= 1
	}
	if broken == "" {
		if err := w.finale(); err != nil {
			broken = "finale: " + err.Error()
		}
	}
	for k, v := range w.counts {
		c.Count(k, v)
	}
	sink.mu.Lock()
	for k, v := range sink.msgs {
		c.Count("log."+k, v)
	}
	sink.mu.Unlock()
	c.Count("steps", int64(len(kinds)))
	c.Count("objects", int64(len(w.order)))
	c.Count("settings.distinct_arrival_orders_compared(sum over cases)", int64(len(w.mon.arrivalOrders)))
	c.Count("attempts_on_tombstoned_ids", int64(w.mon.tombstonedAttempts))
	c.Count("deletions_recorded_locally", int64(w.mon.deletions))
	if nontrivial {
		c.Nontrivial(strings.Join(kinds, ","))
		c.Count("schedules.nontrivial", 1)
	}
	if broken != "" {
		// a step of the rig itself failed (node could not restart, ...): that is
		// either a harness problem or a defect outside what the monitor keys
		c.Violation("rig-step-failed:"+brokenKey, "a rig step failed: "+broken, map[string]any{"events": tail(w.events, 60)})
	}
	for _, p := range w.mon.problems {
		p.Detail["events"] = tail(w.events, 80)
		p.Detail["steps"] = strings.Join(kinds, ",")
		c.Violation(p.Key, p.What, p.Detail)
	}
	var arr []string
	for a := range w.mon.arrivalOrders {
		arr = append(arr, a)
	}
	sort.Strings(arr)
	c.Sample("schedule", map[string]any{"steps": kinds, "objects": len(w.order), "settings_arrival_orders": arr, "events": tail(w.events, 40)})
	if c.Verbose {
		for _, e := range w.events {
			fmt.Println("    " + e)
		}
	}
}

func tail(xs []string, n int) []string {
	if len(xs) > n {
		return xs[len(xs)-n:]
	}
	return xs
}
