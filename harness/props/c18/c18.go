// Package c18: all participants agree on which nodes are responsible for a
// space. Every participant (each node of the configuration, a client) gets its
// own real nodeconf.Service built through the app container; their answers to
// NodeIds / IsResponsible / Partition are compared with each other and with
// the set-level rules of the property. Configurations are enumerated
// exhaustively over type patterns; peer ids and space ids come from the PRNG.
package c18

import (
	"context"
	"crypto/ed25519"
	"errors"
	"fmt"
	"os"
	"runtime"
	"runtime/debug"
	"sort"
	"strings"
	"sync"
	"time"

	"github.com/anyproto/any-sync/accountservice"
	"github.com/anyproto/any-sync/app"
	"github.com/anyproto/any-sync/app/logger"
	"github.com/anyproto/any-sync/commonspace/object/accountdata"
	"github.com/anyproto/any-sync/nodeconf"
	"github.com/anyproto/any-sync/util/crypto"

	"verifharness/lib"
)

func init() {
	// the services log every applied configuration; keep child output small
	logger.SetNamedLevels([]logger.NamedLevel{{Name: "*", Level: "fatal"}})
	// a worker runs its cases sequentially; 16 workers with 16 Ps each only make the collectors fight
	for _, a := range os.Args {
		if a == "-worker" {
			runtime.GOMAXPROCS(2)
			debug.SetGCPercent(800) // ring construction is allocation-heavy and short-lived
		}
	}
}

type Prop struct{}

func (Prop) ID() string    { return "C18" }
func (Prop) Level() string { return "exploration" }
func (Prop) Rule() string {
	return "ring: every node-type pattern of length 1..5 and every third of length 6 over the alphabet {tree-only, tree+other types, non-tree} (thorough: all patterns of length 1..6 over 5 letters, adding tree+file and coordinator+consensus) and ring7: the patterns of length 7 over the 3-letter alphabet (quick: every ninth, thorough: all) are one base configuration each with PRNG peer ids; every node and a client get their own nodeconf.Service (app container, stub source/store/checker) and are asked NodeIds/IsResponsible/Partition for 200 (thorough 400) space ids (with suffix, shared suffixes, no dot, empty suffix, several dots, empty id); the same questions are asked on rewritings of the configuration that keep the tree-node set (quick: 3-4 of 7 per base configuration, alternating; thorough: all 7) (permuted, non-tree nodes added, non-tree nodes dropped, extra types stripped, metadata/addresses changed, reversed, roles split into one entry per role with every tree node and a client asked). A configuration is non-trivial when it has >= 2 tree nodes; distinct = (pattern, concrete types, peer ids). paths: random configurations whose participants receive the configuration directly, from the store, or through a source update while running."
}
func (Prop) Assumptions() []string {
	return []string{
		"a peer id appears in at most one entry that carries the type \"tree\" (a second one is refused by Init and is outside the property); the same peer id listed once per role is legal and is the roles-split rewriting",
		"'replication factor' is the exported constant nodeconf.ReplicationFactor; 'sync node' is a node whose type list contains \"tree\"",
		"for an id without a dot the property does not say what the replication key is; the oracle only demands agreement, size, membership and self-exclusion for such ids (that \"k\" and \"x.k\" coincide is counted, not demanded)",
		"Partition is observed and compared but the statement does not mention it, so a disagreement is counted (info.partition_disagreement), not judged",
	}
}

// ---------------------------------------------------------------- patterns

// letters: T tree only, M tree + other types, N non-tree; thorough adds
// F (tree+file) and C (coordinator/consensus only).
func patterns(tier, wl string) []string {
	var out []string
	gen := func(alpha string, n int) {
		idx := make([]int, n)
		for {
			b := make([]byte, n)
			for i, v := range idx {
				b[i] = alpha[v]
			}
			out = append(out, string(b))
			k := n - 1
			for k >= 0 {
				idx[k]++
				if idx[k] < len(alpha) {
					break
				}
				idx[k] = 0
				k--
			}
			if k < 0 {
				return
			}
		}
	}
	thin := func(k int) {
		var s []string
		for i := 0; i < len(out); i += k {
			s = append(s, out[i])
		}
		out = s
	}
	switch {
	case wl == "ring7":
		gen("TMN", 7)
		if tier != "thorough" {
			thin(9) // quick: every ninth pattern of length 7
		}
	case tier == "thorough":
		for n := 1; n <= 6; n++ {
			gen("TMNFC", n)
		}
	default:
		gen("TMN", 6)
		thin(3) // quick: every third pattern of length 6, all shorter ones
		for n := 1; n <= 5; n++ {
			gen("TMN", n)
		}
	}
	return out
}

var (
	mixTree = [][]nodeconf.NodeType{
		{nodeconf.NodeTypeTree, nodeconf.NodeTypeFile},
		{nodeconf.NodeTypeTree, nodeconf.NodeTypeConsensus},
		{nodeconf.NodeTypeCoordinator, nodeconf.NodeTypeTree},
		{nodeconf.NodeTypeTree, nodeconf.NodeTypeFile, nodeconf.NodeTypeConsensus, nodeconf.NodeTypeCoordinator},
		{nodeconf.NodeTypeFileV2, nodeconf.NodeTypeTree},
		{nodeconf.NodeTypeNamingNode, nodeconf.NodeTypePaymentProcessingNode, nodeconf.NodeTypeTree},
		{nodeconf.NodeTypeTree, nodeconf.NodeTypeTree},
		{nodeconf.NodeType("custom"), nodeconf.NodeTypeTree},
	}
	mixNon = [][]nodeconf.NodeType{
		{nodeconf.NodeTypeFile},
		{nodeconf.NodeTypeConsensus},
		{nodeconf.NodeTypeCoordinator},
		{nodeconf.NodeTypeFileV2},
		{nodeconf.NodeTypeNamingNode},
		{nodeconf.NodeTypePaymentProcessingNode},
		{},
		{nodeconf.NodeTypeFile, nodeconf.NodeTypeConsensus, nodeconf.NodeTypeCoordinator},
		{nodeconf.NodeType("Tree")},
		{nodeconf.NodeType("tree ")},
		{nodeconf.NodeType("custom")},
	}
)

func isTree(n nodeconf.Node) bool {
	for _, t := range n.Types {
		if t == "tree" {
			return true
		}
	}
	return false
}

func (Prop) Plan(tier string) []lib.Workload {
	paths := 160
	if tier == "thorough" {
		paths = 2400
	}
	return []lib.Workload{
		{Name: "ring", Cases: len(patterns(tier, "ring")), Exhaustive: tier == "thorough", MinNontrivial: 400, BatchTimeout: 40 * time.Minute},
		{Name: "ring7", Cases: len(patterns(tier, "ring7")), Exhaustive: tier == "thorough", MinNontrivial: 200, BatchTimeout: 40 * time.Minute},
		{Name: "paths", Cases: paths, MinNontrivial: 50, CaseTimeout: 5 * time.Minute},
	}
}

// ---------------------------------------------------------------- stubs

type stubConf struct{ c nodeconf.Configuration }

func (s *stubConf) Init(*app.App) error                 { return nil }
func (s *stubConf) Name() string                        { return "config" }
func (s *stubConf) GetNodeConf() nodeconf.Configuration { return s.c }

type stubAccount struct{ acc *accountdata.AccountKeys }

func (s *stubAccount) Init(*app.App) error               { return nil }
func (s *stubAccount) Name() string                      { return accountservice.CName }
func (s *stubAccount) Account() *accountdata.AccountKeys { return s.acc }

type stubSource struct {
	mu    sync.Mutex
	next  *nodeconf.Configuration // returned once, then "not changed"
	calls int
}

func (s *stubSource) Init(*app.App) error { return nil }
func (s *stubSource) Name() string        { return nodeconf.CNameSource }
func (s *stubSource) GetLast(ctx context.Context, currentId string) (nodeconf.Configuration, error) {
	s.mu.Lock()
	defer s.mu.Unlock()
	s.calls++
	if s.next != nil && s.next.Id != currentId {
		return *s.next, nil
	}
	return nodeconf.Configuration{}, nodeconf.ErrConfigurationNotChanged
}

type stubStore struct {
	mu   sync.Mutex
	conf *nodeconf.Configuration
}

func (s *stubStore) Init(*app.App) error { return nil }
func (s *stubStore) Name() string        { return nodeconf.CNameStore }
func (s *stubStore) GetLast(ctx context.Context, netId string) (nodeconf.Configuration, error) {
	s.mu.Lock()
	defer s.mu.Unlock()
	if s.conf == nil {
		return nodeconf.Configuration{}, nodeconf.ErrConfigurationNotFound
	}
	return cloneConf(*s.conf), nil
}
func (s *stubStore) SaveLast(ctx context.Context, c nodeconf.Configuration) error {
	s.mu.Lock()
	defer s.mu.Unlock()
	cc := cloneConf(c)
	s.conf = &cc
	return nil
}

type stubChecker struct{}

func (stubChecker) Init(*app.App) error { return nil }
func (stubChecker) Name() string        { return "verif.versionchecker" }
func (stubChecker) IsNetworkNeedsUpdate(ctx context.Context) (bool, error) {
	return false, nil
}

func cloneConf(c nodeconf.Configuration) nodeconf.Configuration {
	out := c
	out.Nodes = make([]nodeconf.Node, len(c.Nodes))
	for i, n := range c.Nodes {
		nn := n
		nn.Addresses = append([]string(nil), n.Addresses...)
		nn.Types = append([]nodeconf.NodeType(nil), n.Types...)
		out.Nodes[i] = nn
	}
	return out
}

type mode int

const (
	modeDirect  mode = iota // configuration comes from the app config, store empty
	modeStored              // the store already holds the configuration; app config lists only coordinators
	modeUpdated             // starts on an older configuration, receives the current one from the source while running
)

func (m mode) String() string { return [...]string{"direct", "stored", "updated"}[m] }

type participant struct {
	id   string
	kind string // "tree", "non-tree", "client"
	mode mode
	svc  nodeconf.Service
	a    *app.App
}

func (p *participant) close() {
	if p.a != nil {
		_ = p.a.Close(context.Background())
	}
}

// startParticipant builds a real nodeconf.Service for `self` in its own app.
// old is only used by modeUpdated.
func startParticipant(self, kind string, m mode, cfg nodeconf.Configuration, old *nodeconf.Configuration) (*participant, error) {
	a := new(app.App)
	svc := nodeconf.New()
	src := &stubSource{}
	st := &stubStore{}
	conf := &stubConf{}
	switch m {
	case modeDirect:
		conf.c = cloneConf(cfg)
	case modeStored:
		cc := cloneConf(cfg)
		st.conf = &cc
		// the app config of such a participant is the bootstrap one: only the coordinators
		boot := cloneConf(cfg)
		boot.Id = "bootstrap-" + cfg.Id
		boot.Nodes = nil
		for _, n := range cloneConf(cfg).Nodes {
			if n.HasType(nodeconf.NodeTypeCoordinator) {
				if len(boot.Nodes) == 0 {
					// an address the stored configuration does not know yet: exercises the merge + re-save path
					n.Addresses = append(n.Addresses, "bootstrap.example:443")
				}
				boot.Nodes = append(boot.Nodes, n)
			}
		}
		conf.c = boot
	case modeUpdated:
		conf.c = cloneConf(*old)
		cc := cloneConf(cfg)
		src.next = &cc
	}
	a.Register(conf).
		Register(&stubAccount{acc: &accountdata.AccountKeys{PeerId: self}}).
		Register(src).Register(st).Register(stubChecker{}).Register(svc)
	if err := a.Start(context.Background()); err != nil {
		return nil, err
	}
	p := &participant{id: self, kind: kind, mode: m, svc: svc, a: a}
	if m == modeUpdated {
		// harness-side wait for the asynchronous update (not part of any oracle)
		deadline := time.Now().Add(20 * time.Second)
		for svc.Id() != cfg.Id {
			if time.Now().After(deadline) {
				p.close()
				return nil, errUpdateNotApplied
			}
			time.Sleep(200 * time.Microsecond)
		}
	}
	return p, nil
}

var errUpdateNotApplied = errors.New("source update was not applied within 20 s")

// ---------------------------------------------------------------- generators

func newPeerId(c *lib.Case) string {
	seed := make([]byte, ed25519.SeedSize)
	c.Rng.Read(seed)
	k := crypto.NewEd25519PrivKey(ed25519.NewKeyFromSeed(seed))
	id, err := crypto.IdFromSigningPubKey(k.GetPublic())
	if err != nil {
		panic(err)
	}
	return id.String()
}

const b36 = "0123456789abcdefghijklmnopqrstuvwxyz"

func randStr(c *lib.Case, n int, alpha string) string {
	b := make([]byte, n)
	for i := range b {
		b[i] = alpha[c.Rng.Intn(len(alpha))]
	}
	return string(b)
}

type spaceQ struct {
	id    string
	class string
	// group: ids with the same non-empty group share the suffix after the last dot
	group string
}

func genSpaceIds(c *lib.Case, n int) []spaceQ {
	var out []spaceQ
	cid := func() string { return "bafyrei" + randStr(c, 52, "abcdefghijklmnopqrstuvwxyz234567") }
	// fixed edge cases
	out = append(out,
		spaceQ{id: "", class: "empty-id"},
		spaceQ{id: ".", class: "empty-suffix", group: "sfx:"},
		spaceQ{id: cid() + ".", class: "empty-suffix", group: "sfx:"},
		spaceQ{id: "..", class: "empty-suffix", group: "sfx:"},
	)
	for len(out) < n {
		switch c.Rng.Intn(10) {
		case 0, 1, 2: // ordinary id, private suffix
			s := randStr(c, 1+c.Rng.Intn(13), b36)
			out = append(out, spaceQ{id: cid() + "." + s, class: "with-suffix", group: "sfx:" + s})
		case 3, 4, 5: // a family sharing one suffix, different prefixes
			s := randStr(c, 1+c.Rng.Intn(13), b36)
			k := 2 + c.Rng.Intn(3)
			for j := 0; j < k; j++ {
				var pre string
				switch c.Rng.Intn(5) {
				case 0:
					pre = cid()
				case 1:
					pre = "" // ".suffix"
				case 2:
					pre = cid() + "." + randStr(c, 3, b36) // several dots
				case 3:
					pre = "." + cid() + ".." // dots everywhere
				default:
					pre = randStr(c, 1+c.Rng.Intn(8), b36)
				}
				cl := "shared-suffix"
				if strings.Contains(pre, ".") {
					cl = "multi-dot"
				}
				out = append(out, spaceQ{id: pre + "." + s, class: cl, group: "sfx:" + s})
			}
		case 6, 7: // no dot at all
			out = append(out, spaceQ{id: cid(), class: "no-dot"})
		case 8: // no dot, and the same string as somebody's suffix (informational)
			s := randStr(c, 1+c.Rng.Intn(13), b36)
			out = append(out, spaceQ{id: s, class: "no-dot"}, spaceQ{id: cid() + "." + s, class: "with-suffix", group: "sfx:" + s})
		default: // unusual characters in the suffix
			s := randStr(c, 1+c.Rng.Intn(6), "AZ_-/ é世") + randStr(c, 2, b36)
			out = append(out, spaceQ{id: cid() + "." + s, class: "odd-suffix", group: "sfx:" + s},
				spaceQ{id: "x." + s, class: "odd-suffix", group: "sfx:" + s})
		}
	}
	return out
}

func buildConfig(c *lib.Case, pattern string) nodeconf.Configuration {
	cfg := nodeconf.Configuration{
		Id:           "conf-" + randStr(c, 12, b36),
		NetworkId:    "net-" + randStr(c, 8, b36),
		CreationTime: time.Unix(1700000000+int64(c.Rng.Intn(1000000)), 0),
		Epoch:        uint64(c.Rng.Intn(5)),
	}
	for i, ch := range pattern {
		n := nodeconf.Node{PeerId: newPeerId(c), Addresses: []string{fmt.Sprintf("127.0.0.1:%d", 4000+i)}}
		switch ch {
		case 'T':
			n.Types = []nodeconf.NodeType{nodeconf.NodeTypeTree}
		case 'M':
			n.Types = append([]nodeconf.NodeType(nil), mixTree[c.Rng.Intn(len(mixTree))]...)
		case 'F':
			n.Types = []nodeconf.NodeType{nodeconf.NodeTypeFile, nodeconf.NodeTypeTree}
		case 'N':
			n.Types = append([]nodeconf.NodeType(nil), mixNon[c.Rng.Intn(len(mixNon))]...)
		case 'C':
			n.Types = []nodeconf.NodeType{nodeconf.NodeTypeCoordinator, nodeconf.NodeTypeConsensus}
		}
		cfg.Nodes = append(cfg.Nodes, n)
	}
	return cfg
}

// variants keep the tree-node set and change everything else.
func variants(c *lib.Case, cfg nodeconf.Configuration) map[string]nodeconf.Configuration {
	out := map[string]nodeconf.Configuration{}
	perm := cloneConf(cfg)
	c.Rng.Shuffle(len(perm.Nodes), func(i, j int) { perm.Nodes[i], perm.Nodes[j] = perm.Nodes[j], perm.Nodes[i] })
	out["permuted"] = perm
	rev := cloneConf(cfg)
	for i, j := 0, len(rev.Nodes)-1; i < j; i, j = i+1, j-1 {
		rev.Nodes[i], rev.Nodes[j] = rev.Nodes[j], rev.Nodes[i]
	}
	out["reversed"] = rev
	add := cloneConf(cfg)
	k := 1 + c.Rng.Intn(3)
	for i := 0; i < k; i++ {
		n := nodeconf.Node{PeerId: newPeerId(c), Addresses: []string{"10.0.0.1:1"}, Types: append([]nodeconf.NodeType(nil), mixNon[c.Rng.Intn(len(mixNon))]...)}
		pos := c.Rng.Intn(len(add.Nodes) + 1)
		add.Nodes = append(add.Nodes[:pos], append([]nodeconf.Node{n}, add.Nodes[pos:]...)...)
	}
	out["non-tree-added"] = add
	drop := cloneConf(cfg)
	drop.Nodes = drop.Nodes[:0]
	for _, n := range cloneConf(cfg).Nodes {
		if isTree(n) {
			drop.Nodes = append(drop.Nodes, n)
		}
	}
	out["non-tree-dropped"] = drop
	strip := cloneConf(cfg)
	for i := range strip.Nodes {
		if isTree(strip.Nodes[i]) {
			strip.Nodes[i].Types = []nodeconf.NodeType{nodeconf.NodeTypeTree}
		}
	}
	out["types-stripped"] = strip
	meta := cloneConf(cfg)
	meta.Id = "other-" + cfg.Id
	meta.NetworkId = "othernet"
	meta.Epoch = cfg.Epoch + 7
	meta.CreationTime = cfg.CreationTime.Add(time.Hour)
	meta.FileNetworkId = "filenet"
	for i := range meta.Nodes {
		meta.Nodes[i].Addresses = []string{fmt.Sprintf("192.168.%d.1:99", i), "quic://h:1"}
	}
	out["metadata-changed"] = meta
	// roles-split: the same peer id listed once per role (the layout of the repository's own yaml
	// example): every tree node becomes two entries, one carrying only "tree" and one carrying its
	// other types (or "coordinator" if it had none), in either order; the tree-node set is unchanged
	// (added after seeded change C18-4 - IsResponsible consulting only the first entry of a peer - was missed)
	split := cloneConf(cfg)
	split.Nodes = split.Nodes[:0]
	for _, n := range cloneConf(cfg).Nodes {
		if !isTree(n) {
			split.Nodes = append(split.Nodes, n)
			continue
		}
		var other []nodeconf.NodeType
		for _, t := range n.Types {
			if t != nodeconf.NodeTypeTree {
				other = append(other, t)
			}
		}
		if len(other) == 0 {
			other = []nodeconf.NodeType{nodeconf.NodeTypeCoordinator}
		}
		a := nodeconf.Node{PeerId: n.PeerId, Addresses: append([]string(nil), n.Addresses...), Types: []nodeconf.NodeType{nodeconf.NodeTypeTree}}
		b := nodeconf.Node{PeerId: n.PeerId, Addresses: append([]string(nil), n.Addresses...), Types: other}
		if c.Rng.Intn(3) == 0 {
			split.Nodes = append(split.Nodes, a, b)
		} else {
			split.Nodes = append(split.Nodes, b, a)
		}
	}
	out["roles-split"] = split
	return out
}

// ---------------------------------------------------------------- oracle

func sortedSet(ids []string) []string {
	o := append([]string(nil), ids...)
	sort.Strings(o)
	return o
}

func hasDup(ids []string) bool {
	s := map[string]bool{}
	for _, x := range ids {
		if s[x] {
			return true
		}
		s[x] = true
	}
	return false
}

func eq(a, b []string) bool {
	if len(a) != len(b) {
		return false
	}
	for i := range a {
		if a[i] != b[i] {
			return false
		}
	}
	return true
}

func contains(s []string, x string) bool {
	for _, v := range s {
		if v == x {
			return true
		}
	}
	return false
}

func minus(s []string, x string) []string {
	var o []string
	for _, v := range s {
		if v != x {
			o = append(o, v)
		}
	}
	return o
}

func describeCfg(cfg nodeconf.Configuration) []map[string]any {
	var o []map[string]any
	for _, n := range cfg.Nodes {
		o = append(o, map[string]any{"peer": n.PeerId, "types": n.Types})
	}
	return o
}

// viol records the first violation of a key within a case and counts the others:
// one wrong ring makes every (participant, id) pair fail, and a witness per pair is noise.
type viol struct {
	c    *lib.Case
	seen map[string]int
}

func (v *viol) Violation(key, what string, detail any) {
	if v.seen == nil {
		v.seen = map[string]int{}
	}
	v.seen[key]++
	if v.seen[key] == 1 {
		v.c.Violation(key, what, detail)
	} else {
		v.c.Count("violations_beyond_first_per_case_and_key", 1)
	}
}

// caseV is a lib.Case whose Violation goes through the limiter.
type caseV struct {
	*lib.Case
	v *viol
}

func (c *caseV) Violation(key, what string, detail any) { c.v.Violation(key, what, detail) }

type answer struct {
	ids  []string
	resp bool
	part int
}

// checkAll asks every participant about every space id and applies the oracle.
// The reference set of an id is the union-set of the first participant; all
// others are compared with it, so a disagreement is reported once per class.
func checkAll(c *caseV, cfg nodeconf.Configuration, ps []*participant, qs []spaceQ, tag string) (sets map[string][]string) {
	var treeIds []string
	for _, n := range cfg.Nodes {
		if isTree(n) {
			treeIds = append(treeIds, n.PeerId)
		}
	}
	want := nodeconf.ReplicationFactor
	if len(treeIds) < want {
		want = len(treeIds)
	}
	sets = map[string][]string{}
	groupSet := map[string][]string{}
	groupId := map[string]string{}
	distinct := map[string]bool{}
	detail := func(q spaceQ, extra map[string]any) map[string]any {
		d := map[string]any{"config": describeCfg(cfg), "space_id": q.id, "id_class": q.class, "tier_tag": tag}
		for k, v := range extra {
			d[k] = v
		}
		return d
	}
	// a peer list handed to a caller is the caller's: it must still say the same after later questions
	// (added after seeded change C18-6 - NodeIds answering from one shared scratch buffer - was missed)
	type kept struct {
		who, space string
		got, copy  []string
	}
	var keptLists []kept
	defer func() {
		for _, k := range keptLists {
			if !eq(k.got, k.copy) {
				c.Violation("node-ids-changed-after-return:"+tag, "a peer list returned by NodeIds changed after later calls (answers share memory)",
					map[string]any{"config": describeCfg(cfg), "participant": k.who, "space_id": k.space, "when_returned": k.copy, "now": k.got})
				return
			}
		}
		c.Count("observed.peer_lists_rechecked_after_later_calls", int64(len(keptLists)))
	}()
	for _, q := range qs {
		ans := make([]answer, len(ps))
		unions := make([][]string, len(ps))
		for i, p := range ps {
			a := answer{ids: p.svc.NodeIds(q.id), resp: p.svc.IsResponsible(q.id), part: p.svc.Partition(q.id)}
			keptLists = append(keptLists, kept{who: p.id, space: q.id, got: a.ids, copy: append([]string(nil), a.ids...)})
			ans[i] = a
			u := append([]string(nil), a.ids...)
			if a.resp {
				u = append(u, p.id)
			}
			unions[i] = sortedSet(u)
			c.Count("observed.queries", 3)
			if a.resp {
				c.Count("observed.is_responsible_true."+p.kind, 1)
			} else {
				c.Count("observed.is_responsible_false."+p.kind, 1)
			}
		}
		// the reference: the client's view (last participant is always the client)
		ref := unions[len(ps)-1]
		S := ref
		sets[q.id] = S
		distinct[strings.Join(S, ",")] = true
		// set-level rules
		if len(S) != want {
			c.Violation("size:"+q.class, fmt.Sprintf("responsible set has %d members, want min(replication factor %d, %d tree nodes) = %d", len(S), nodeconf.ReplicationFactor, len(treeIds), want),
				detail(q, map[string]any{"set": S}))
		}
		if hasDup(S) {
			c.Violation("distinct:"+q.class, "responsible set contains a node twice", detail(q, map[string]any{"set": S}))
		}
		for _, m := range S {
			if !contains(treeIds, m) {
				c.Violation("membership:"+q.class, "responsible set contains a node that is not a sync (tree) node of the configuration", detail(q, map[string]any{"set": S, "member": m}))
				break
			}
		}
		for i, p := range ps {
			a := ans[i]
			if !eq(unions[i], S) {
				c.Violation("agreement:"+p.kind+"-vs-client:"+p.mode.String(), "two participants with the same configuration compute different responsible sets",
					detail(q, map[string]any{"participant": p.id, "participant_kind": p.kind, "its_set": unions[i], "client_set": S, "its_node_ids": a.ids, "its_is_responsible": a.resp}))
			}
			if a.resp != contains(S, p.id) {
				c.Violation("is-responsible:"+p.kind+":"+p.mode.String(), "IsResponsible differs from membership in the responsible set",
					detail(q, map[string]any{"participant": p.id, "is_responsible": a.resp, "set": S}))
			}
			if contains(a.ids, p.id) {
				c.Violation("node-ids-contains-self:"+p.kind+":"+p.mode.String(), "NodeIds of a participant contains the participant itself",
					detail(q, map[string]any{"participant": p.id, "node_ids": a.ids}))
			}
			if hasDup(a.ids) || !eq(sortedSet(a.ids), sortedSet(minus(S, p.id))) {
				c.Violation("node-ids-not-set-minus-self:"+p.kind+":"+p.mode.String(), "NodeIds is not the responsible set minus the participant",
					detail(q, map[string]any{"participant": p.id, "node_ids": a.ids, "set": S}))
			}
			c.Count("info.partition_comparisons", 1)
			if a.part != ans[len(ps)-1].part {
				c.Count("info.partition_disagreement", 1)
			}
			c.Eval(1)
		}
		// same suffix => same set
		if q.group != "" {
			if prev, ok := groupSet[q.group]; ok {
				c.Count("observed.same_suffix_pairs", 1)
				if !eq(prev, S) {
					c.Violation("same-suffix:"+q.class, "two ids with the same replication-key suffix map to different responsible sets",
						detail(q, map[string]any{"other_id": groupId[q.group], "other_set": prev, "set": S}))
				}
			} else {
				groupSet[q.group] = S
				groupId[q.group] = q.id
			}
		}
		c.Count("observed.ids."+q.class, 1)
	}
	// informational: an id without a dot compared with "x.<id>"
	for _, q := range qs {
		if q.class == "no-dot" {
			if s2, ok := groupSet["sfx:"+q.id]; ok {
				if eq(s2, sets[q.id]) {
					c.Count("info.no_dot_id_equals_its_suffix_form", 1)
				} else {
					c.Count("info.no_dot_id_differs_from_its_suffix_form", 1)
				}
			}
		}
	}
	c.Count("observed.distinct_responsible_sets", int64(len(distinct)))
	return sets
}

func patternOf(cfg nodeconf.Configuration) string {
	var sb strings.Builder
	for _, n := range cfg.Nodes {
		var ts []string
		for _, t := range n.Types {
			ts = append(ts, string(t))
		}
		sb.WriteString("[" + strings.Join(ts, "+") + "]")
	}
	return sb.String()
}

func (Prop) RunCase(c *lib.Case) {
	switch c.Workload {
	case "ring", "ring7":
		runRing(c)
	case "paths":
		runPaths(c)
	}
}

func nIds(c *lib.Case) int {
	if c.Quick() {
		return 200
	}
	return 400
}

func runRing(c *lib.Case) {
	pats := patterns(c.Tier, c.Workload)
	pat := pats[c.Index]
	cfg := buildConfig(c, pat)
	qs := genSpaceIds(c, nIds(c))
	runConfig(c, cfg, qs, func(i int) mode { return modeDirect }, nil, pat)
}

func runConfig(c0 *lib.Case, cfg nodeconf.Configuration, qs []spaceQ, modeOf func(i int) mode, old *nodeconf.Configuration, pat string) {
	c := &caseV{Case: c0, v: &viol{c: c0}}
	var ps []*participant
	defer func() {
		for _, p := range ps {
			p.close()
		}
	}()
	nTree := 0
	for i, n := range cfg.Nodes {
		kind := "non-tree"
		if isTree(n) {
			kind = "tree"
			nTree++
		}
		p, err := startParticipant(n.PeerId, kind, modeOf(i), cfg, old)
		if err != nil {
			if errors.Is(err, errUpdateNotApplied) {
				c.Inconclusive(err.Error())
				return
			}
			c.Violation("start-error:"+kind+":"+modeOf(i).String(), "a participant could not start with a well-formed configuration", map[string]any{"config": describeCfg(cfg), "err": err.Error()})
			return
		}
		ps = append(ps, p)
		c.Count("participants."+kind+"."+p.mode.String(), 1)
	}
	// the client is always last and always direct: it is the reference view
	cl, err := startParticipant(newPeerId(c0), "client", modeDirect, cfg, old)
	if err != nil {
		c.Violation("start-error:client", "a client could not start with a well-formed configuration", map[string]any{"config": describeCfg(cfg), "err": err.Error()})
		return
	}
	ps = append(ps, cl)
	c.Count("participants.client.direct", 1)
	// sanity: every participant really runs on the same tree-node set (otherwise the comparison is meaningless)
	for _, p := range ps {
		eff := p.svc.Configuration()
		var a, b []string
		for _, n := range eff.Nodes {
			if isTree(n) {
				a = append(a, n.PeerId)
			}
		}
		for _, n := range cfg.Nodes {
			if isTree(n) {
				b = append(b, n.PeerId)
			}
		}
		if !eq(sortedSet(a), sortedSet(b)) {
			c.Inconclusive(fmt.Sprintf("participant %s (%s) runs on a different tree-node set than intended: %v vs %v", p.id, p.mode, a, b))
			return
		}
	}
	base := checkAll(c, cfg, ps, qs, "base")
	c.Count("configurations", 1)
	c.Count(fmt.Sprintf("configurations.tree_nodes_%d", nTree), 1)
	if nTree >= 2 {
		c.Nontrivial(patternOf(cfg) + "|" + cfg.Nodes[0].PeerId)
	}
	c.Sample(fmt.Sprintf("tree%d", nTree), map[string]any{"pattern": pat, "types": patternOf(cfg), "example_id": qs[len(qs)-1].id, "example_set": base[qs[len(qs)-1].id]})

	// rewritings of the configuration that keep the tree-node set: asked from a fresh client and from one node
	vs := variants(c0, cfg)
	names := make([]string, 0, len(vs))
	for k := range vs {
		names = append(names, k)
	}
	sort.Strings(names)
	for vi0, name := range names {
		vi := vi0/2 + c.Index/2 + vi0
		if c.Quick() && (vi0+c.Index)%2 == 1 {
			continue // quick: three of the six rewritings per configuration, alternating
		}
		v := vs[name]
		var vps []*participant
		// asked from one fresh participant: alternately a tree node of the rewritten configuration and a client
		if name == "roles-split" {
			// every tree node of the rewritten configuration is asked, and a client
			for _, n := range v.Nodes {
				if isTree(n) {
					p, err := startParticipant(n.PeerId, "tree", modeDirect, v, nil)
					if err != nil {
						c.Violation("start-error:variant:"+name, "a participant could not start on a rewritten configuration", map[string]any{"config": describeCfg(v), "err": err.Error()})
						return
					}
					vps = append(vps, p)
				}
			}
			vc, err := startParticipant(newPeerId(c0), "client", modeDirect, v, nil)
			if err != nil {
				c.Violation("start-error:variant:"+name, "a client could not start on a rewritten configuration", map[string]any{"config": describeCfg(v), "err": err.Error()})
				return
			}
			vps = append(vps, vc)
		} else if vi%2 == 1 {
			for _, n := range v.Nodes {
				if isTree(n) {
					p, err := startParticipant(n.PeerId, "tree", modeDirect, v, nil)
					if err != nil {
						c.Violation("start-error:variant:"+name, "a participant could not start on a rewritten configuration", map[string]any{"config": describeCfg(v), "err": err.Error()})
						return
					}
					vps = append(vps, p)
					break
				}
			}
		}
		if len(vps) == 0 {
			vc, err := startParticipant(newPeerId(c0), "client", modeDirect, v, nil)
			if err != nil {
				c.Violation("start-error:variant:"+name, "a client could not start on a rewritten configuration", map[string]any{"config": describeCfg(v), "err": err.Error()})
				return
			}
			vps = append(vps, vc)
		}
		for _, q := range qs {
			for _, p := range vps {
				u := append([]string(nil), p.svc.NodeIds(q.id)...)
				if p.svc.IsResponsible(q.id) {
					u = append(u, p.id)
				}
				u = sortedSet(u)
				c.Count("observed.queries", 2)
				c.Eval(1)
				if !eq(u, base[q.id]) {
					c.Violation("config-variant:"+name+":"+p.kind, "the responsible set changed although only parts of the configuration outside the sync-node set were rewritten",
						map[string]any{"config": describeCfg(cfg), "rewritten": describeCfg(v), "space_id": q.id, "base_set": base[q.id], "variant_set": u, "asked": p.id})
					break
				}
			}
		}
		c.Count("variants."+name, 1)
		for _, p := range vps {
			p.close()
		}
	}
	// evidence that the sets do depend on the tree-node set: drop one tree node and count how many ids move
	if nTree >= 2 && c.Index%4 == 0 {
		less := cloneConf(cfg)
		for i, n := range less.Nodes {
			if isTree(n) {
				less.Nodes = append(less.Nodes[:i], less.Nodes[i+1:]...)
				break
			}
		}
		if p, err := startParticipant(newPeerId(c0), "client", modeDirect, less, nil); err == nil {
			moved := 0
			for _, q := range qs {
				if !eq(sortedSet(p.svc.NodeIds(q.id)), base[q.id]) {
					moved++
				}
			}
			c.Count("info.ids_moved_when_a_tree_node_is_dropped", int64(moved))
			c.Count("info.ids_asked_when_a_tree_node_is_dropped", int64(len(qs)))
			p.close()
		}
	}
}

// runPaths: random configurations whose participants obtain the configuration in different ways.
func runPaths(c *lib.Case) {
	n := 2 + c.Rng.Intn(6)
	alpha := "TTTMMN"
	b := make([]byte, n)
	for i := range b {
		b[i] = alpha[c.Rng.Intn(len(alpha))]
	}
	pat := string(b)
	cfg := buildConfig(c, pat)
	// make sure at least one coordinator exists so that the stored path merges something
	cfg.Nodes = append(cfg.Nodes, nodeconf.Node{PeerId: newPeerId(c), Addresses: []string{"127.0.0.1:9000"}, Types: []nodeconf.NodeType{nodeconf.NodeTypeCoordinator}})
	// the older configuration of "updated" participants: a different tree set
	old := buildConfig(c, "TTN")
	old.NetworkId = cfg.NetworkId
	switch x := c.Rng.Intn(3); {
	case x == 0 && len(cfg.Nodes) > 2:
		// or: the same nodes minus one, i.e. a node joined
		o := cloneConf(cfg)
		o.Id = "old-" + cfg.Id
		o.Nodes = o.Nodes[1:]
		old = o
	case x == 1:
		// or: exactly the same peer ids in the same order, only the types of one or two nodes differed
		// (a tree node that was file-only before, or the reverse): the update changes the sync-node set
		// without changing the member list (added after seeded change C18-2 was missed)
		o := cloneConf(cfg)
		o.Id = "old-" + cfg.Id
		for k := 1 + c.Rng.Intn(2); k > 0; k-- {
			i := c.Rng.Intn(len(o.Nodes))
			if isTree(o.Nodes[i]) {
				o.Nodes[i].Types = []nodeconf.NodeType{nodeconf.NodeTypeFile}
			} else {
				o.Nodes[i].Types = append([]nodeconf.NodeType{nodeconf.NodeTypeTree}, o.Nodes[i].Types...)
			}
		}
		old = o
		c.Count("paths.old_config_differs_in_types_only", 1)
	}
	modes := make([]mode, len(cfg.Nodes))
	for i := range modes {
		modes[i] = mode(c.Rng.Intn(3))
	}
	qs := genSpaceIds(c, nIds(c))
	runConfig(c, cfg, qs, func(i int) mode { return modes[i] }, &old, pat+"C")
}
