package c02

import (
	"fmt"
	"math/rand"
	"strings"

	"github.com/ipfs/go-cid"
	"github.com/multiformats/go-multibase"
	mh "github.com/multiformats/go-multihash"

	"google.golang.org/protobuf/encoding/protowire"

	"github.com/anyproto/any-sync/commonspace/object/tree/objecttree"
	"github.com/anyproto/any-sync/commonspace/object/tree/treechangeproto"
	"github.com/anyproto/any-sync/util/crypto"
)

// item is one raw change offered to the tree, with its label.
type item struct {
	id    string
	raw   []byte
	class string // mutation class ("valid-form" for the unmutated change)
}

func (it item) proto() *treechangeproto.RawTreeChangeWithId {
	return &treechangeproto.RawTreeChangeWithId{RawChange: append([]byte(nil), it.raw...), Id: it.id}
}

// candidate is a change built by the real ChangeBuilder plus what it was built from.
type candidate struct {
	item
	bc     objecttree.BuilderContent
	author string
	aclIdx int
}

// regions of a marshalled RawTreeChange
type regions struct {
	framing          []int // offsets of tag / length bytes
	payOff, payLen   int
	sigOff, sigLen   int
	havePay, haveSig bool
}

func locate(raw []byte) regions {
	var rg regions
	off := 0
	b := raw
	for len(b) > 0 {
		num, wt, n := protowire.ConsumeTag(b)
		if n < 0 {
			break
		}
		for i := 0; i < n; i++ {
			rg.framing = append(rg.framing, off+i)
		}
		b, off = b[n:], off+n
		if wt != protowire.BytesType {
			m := protowire.ConsumeFieldValue(num, wt, b)
			if m < 0 {
				break
			}
			b, off = b[m:], off+m
			continue
		}
		l, m := protowire.ConsumeVarint(b)
		if m < 0 || int(l) > len(b)-m {
			break
		}
		for i := 0; i < m; i++ {
			rg.framing = append(rg.framing, off+i)
		}
		b, off = b[m:], off+m
		switch num {
		case 1:
			rg.payOff, rg.payLen, rg.havePay = off, int(l), true
		case 2:
			rg.sigOff, rg.sigLen, rg.haveSig = off, int(l), true
		}
		b, off = b[int(l):], off+int(l)
	}
	return rg
}

func flipBit(raw []byte, pos int, rng *rand.Rand) []byte {
	out := append([]byte(nil), raw...)
	out[pos] ^= 1 << uint(rng.Intn(8))
	return out
}

func assemble(payload, sig []byte) []byte {
	rc := &treechangeproto.RawTreeChange{Payload: payload, Signature: sig}
	b, _ := rc.MarshalVT()
	return b
}

type altId struct{ class, id string }

// altIds: ids that decode to a CID "matching" the bytes under the parameters the id itself names.
func altIds(id string, raw []byte) []altId {
	var out []altId
	if c, err := cid.Decode(id); err == nil {
		if s, err := c.StringOfBase(multibase.Base58BTC); err == nil {
			out = append(out, altId{"respelled:base58btc", s})
		}
		if s, err := c.StringOfBase(multibase.Base32Upper); err == nil {
			out = append(out, altId{"respelled:base32upper", s})
		}
	}
	if h, err := mh.Sum(raw, mh.SHA2_256, -1); err == nil {
		out = append(out, altId{"other-codec:raw", cid.NewCidV1(0x55, h).String()})
		out = append(out, altId{"cidv0", cid.NewCidV0(h).String()})
	}
	if h, err := mh.Sum(raw, mh.SHA2_256, 1); err == nil {
		out = append(out, altId{"weak-hash:sha2-256-truncated-to-1-byte", cid.NewCidV1(0x71, h).String()})
	}
	if h, err := mh.Sum(raw, mh.SHA2_512, -1); err == nil {
		out = append(out, altId{"other-hash:sha2-512", cid.NewCidV1(0x71, h).String()})
	}
	if len(raw) < 4096 {
		if h, err := mh.Sum(raw, mh.IDENTITY, -1); err == nil {
			out = append(out, altId{"weak-hash:identity", cid.NewCidV1(0x71, h).String()})
		}
	}
	// the last base32 character carries padding bits: flip one of them
	const alpha = "abcdefghijklmnopqrstuvwxyz234567"
	if n := len(id); n > 1 {
		if v := strings.IndexByte(alpha, id[n-1]); v >= 0 {
			out = append(out, altId{"respelled:base32-padding-bit", id[:n-1] + string(alpha[v^1])})
		}
	}
	return out
}

func randomCid(rng *rand.Rand) string {
	b := make([]byte, 24)
	for i := range b {
		b[i] = byte(rng.Intn(256))
	}
	return refCid(b)
}

type mutator struct {
	rng      *rand.Rand
	builder  objecttree.ChangeBuilder
	keys     map[string]crypto.PrivKey // account name -> signing key
	idProto  map[string][]byte
	otherSig func(author string) []byte // a signature of another change of the same author (nil if none)
}

// withBoth emits the mutated bytes once under the original id and once under
// the id recomputed from the mutated bytes.
func withBoth(out *[]item, class, origId string, raw []byte) {
	*out = append(*out, item{id: origId, raw: raw, class: class + ":id-kept"})
	*out = append(*out, item{id: refCid(raw), raw: raw, class: class + ":id-recomputed"})
}

// mutants derives the mutation classes of the property's quantifier from one built change.
func (m *mutator) mutants(c *candidate, attachedIds []string, aclIds []string) []item {
	var out []item
	rg := locate(c.raw)
	p, err := parseChange(c.raw)
	if err != nil || !rg.havePay || !rg.haveSig {
		return nil
	}
	rng := m.rng
	// ---- single byte classes
	withBoth(&out, "byte:payload", c.id, flipBit(c.raw, rg.payOff+rng.Intn(rg.payLen), rng))
	withBoth(&out, "byte:payload", c.id, flipBit(c.raw, rg.payOff+rng.Intn(rg.payLen), rng))
	withBoth(&out, "byte:signature", c.id, flipBit(c.raw, rg.sigOff+rng.Intn(rg.sigLen), rng))
	withBoth(&out, "byte:framing", c.id, flipBit(c.raw, rg.framing[rng.Intn(len(rg.framing))], rng))
	withBoth(&out, "byte:truncated", c.id, append([]byte(nil), c.raw[:len(c.raw)-1-rng.Intn(8)]...))
	withBoth(&out, "byte:extended-garbage", c.id, append(append([]byte(nil), c.raw...), byte(rng.Intn(256)), byte(rng.Intn(256))))
	// a well-formed unknown field appended: decodes to the same change; only the kept id is wrong
	withBoth(&out, "byte:extended-unknown-field", c.id, append(append([]byte(nil), c.raw...), 0x78, 0x01))
	// ---- id
	out = append(out, item{id: randomCid(rng), raw: c.raw, class: "id:other-cid"})
	idb := []byte(c.id)
	pos := 8 + rng.Intn(len(idb)-8)
	repl := "abcdefghijklmnopqrstuvwxyz234567"
	for {
		ch := repl[rng.Intn(len(repl))]
		if ch != idb[pos] {
			idb[pos] = ch
			break
		}
	}
	out = append(out, item{id: string(idb), raw: c.raw, class: "id:one-char"})
	// other spellings / other hash parameters for the same bytes: the id of a change is ONE string, the
	// canonical CIDv1 / dag-cbor / full sha2-256 in base32 - an id that merely "verifies" under the
	// parameters it names itself is a different id (added after seeded change C02-6 was missed)
	for _, alt := range altIds(c.id, c.raw) {
		if alt.id != "" && alt.id != c.id {
			out = append(out, item{id: alt.id, raw: c.raw, class: "id:" + alt.class})
		}
	}
	// ---- signature
	if m.otherSig != nil {
		if s := m.otherSig(c.author); s != nil {
			withBoth(&out, "sig:swapped-with-another-change", c.id, assemble(p.payload, s))
		}
	}
	if s, err := m.keys["n"].Sign(p.payload); err == nil {
		withBoth(&out, "sig:resigned-by-never-member-identity-kept", c.id, assemble(p.payload, s))
	}
	withBoth(&out, "sig:empty", c.id, assemble(p.payload, nil))
	// ---- identity
	for _, other := range []string{"n", "r", "v", "owner"} {
		if other == c.author {
			continue
		}
		tc := cloneTC(p.tc)
		tc.Identity = m.idProto[other]
		pl, _ := tc.MarshalVT()
		withBoth(&out, "identity:replaced-by-"+other+":signature-kept", c.id, assemble(pl, p.signature))
		bc := c.bc
		bc.PrivKey = m.keys[other]
		if _, raw, err := m.builder.Build(bc); err == nil {
			out = append(out, item{id: raw.Id, raw: raw.RawChange, class: "identity:replaced-by-" + other + ":resigned-by-it"})
		}
	}
	// ---- cited ACL record
	{
		tc := cloneTC(p.tc)
		tc.AclHeadId = aclIds[rng.Intn(len(aclIds))]
		if tc.AclHeadId == p.tc.AclHeadId {
			tc.AclHeadId = randomCid(rng)
		}
		pl, _ := tc.MarshalVT()
		withBoth(&out, "aclhead:replaced:signature-kept", c.id, assemble(pl, p.signature))
		bc := c.bc
		bc.AclHeadId = randomCid(rng)
		if _, raw, err := m.builder.Build(bc); err == nil {
			out = append(out, item{id: raw.Id, raw: raw.RawChange, class: "aclhead:unknown-record:resigned"})
		}
		bc = c.bc
		bc.AclHeadId = aclIds[rng.Intn(len(aclIds))]
		if _, raw, err := m.builder.Build(bc); err == nil {
			out = append(out, item{id: raw.Id, raw: raw.RawChange, class: "aclhead:other-position:resigned"})
		}
	}
	// ---- snapshot base (outside the statement; drives the rebuild-from-storage rejection path)
	{
		bc := c.bc
		bc.SnapshotBaseId = randomCid(rng)
		if _, raw, err := m.builder.Build(bc); err == nil {
			out = append(out, item{id: raw.Id, raw: raw.RawChange, class: "snapshot-base:unknown-id:resigned"})
		}
		if len(attachedIds) > 1 {
			bc = c.bc
			bc.SnapshotBaseId = attachedIds[1+rng.Intn(len(attachedIds)-1)]
			if _, raw, err := m.builder.Build(bc); err == nil {
				out = append(out, item{id: raw.Id, raw: raw.RawChange, class: "snapshot-base:attached-non-snapshot:resigned"})
			}
		}
	}
	// ---- parents
	{
		variants := map[string][]string{
			"dropped":    nil,
			"unknown-id": {randomCid(rng)},
		}
		if len(attachedIds) > 0 {
			variants["other-attached"] = []string{attachedIds[rng.Intn(len(attachedIds))]}
			variants["extra-unknown"] = append(append([]string(nil), p.tc.TreeHeadIds...), randomCid(rng))
		}
		for _, name := range []string{"dropped", "unknown-id", "other-attached", "extra-unknown"} {
			parents, have := variants[name]
			if !have {
				continue
			}
			tc := cloneTC(p.tc)
			tc.TreeHeadIds = parents
			pl, _ := tc.MarshalVT()
			withBoth(&out, "parents:"+name+":signature-kept", c.id, assemble(pl, p.signature))
			bc := c.bc
			bc.TreeHeadIds = parents
			if _, raw, err := m.builder.Build(bc); err == nil {
				out = append(out, item{id: raw.Id, raw: raw.RawChange, class: "parents:" + name + ":resigned"})
			}
		}
	}
	return out
}

func (it item) String() string { return fmt.Sprintf("%s[%s]", it.class, it.id[len(it.id)-6:]) }

func cloneTC(tc *treechangeproto.TreeChange) *treechangeproto.TreeChange {
	b, _ := tc.MarshalVT()
	out := &treechangeproto.TreeChange{}
	_ = out.UnmarshalVT(b)
	return out
}
