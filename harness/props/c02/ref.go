package c02

import (
	"crypto/ed25519"
	"fmt"

	"github.com/ipfs/go-cid"
	mh "github.com/multiformats/go-multihash"
	"google.golang.org/protobuf/encoding/protowire"

	"github.com/anyproto/any-sync/commonspace/object/tree/treechangeproto"

	"verifharness/engines/aclhist"
)

// refCid recomputes the content id independently of util/cidutil
// (CIDv1, dag-cbor codec 0x71, sha2-256 multihash).
func refCid(data []byte) string {
	h, err := mh.Sum(data, mh.SHA2_256, -1)
	if err != nil {
		return ""
	}
	return cid.NewCidV1(0x71, h).String()
}

// parsed is the harness's own reading of a raw change.
type parsed struct {
	payload   []byte
	signature []byte
	tc        *treechangeproto.TreeChange
	pub       []byte // raw ed25519 public key named by the change
}

// parseKeyProto reads cryptoproto.Key{Type=1 varint, Data=2 bytes} by hand.
func parseKeyProto(b []byte) (typ uint64, data []byte, err error) {
	for len(b) > 0 {
		num, wt, n := protowire.ConsumeTag(b)
		if n < 0 {
			return 0, nil, fmt.Errorf("bad tag")
		}
		b = b[n:]
		switch {
		case num == 1 && wt == protowire.VarintType:
			v, n := protowire.ConsumeVarint(b)
			if n < 0 {
				return 0, nil, fmt.Errorf("bad varint")
			}
			typ = v
			b = b[n:]
		case num == 2 && wt == protowire.BytesType:
			v, n := protowire.ConsumeBytes(b)
			if n < 0 {
				return 0, nil, fmt.Errorf("bad bytes")
			}
			data = v
			b = b[n:]
		default:
			n := protowire.ConsumeFieldValue(num, wt, b)
			if n < 0 {
				return 0, nil, fmt.Errorf("bad field")
			}
			b = b[n:]
		}
	}
	return typ, data, nil
}

func parseChange(raw []byte) (*parsed, error) {
	rc := &treechangeproto.RawTreeChange{}
	if err := rc.UnmarshalVT(raw); err != nil {
		return nil, fmt.Errorf("raw change: %w", err)
	}
	tc := &treechangeproto.TreeChange{}
	if err := tc.UnmarshalVT(rc.Payload); err != nil {
		return nil, fmt.Errorf("tree change: %w", err)
	}
	typ, data, err := parseKeyProto(tc.Identity)
	if err != nil {
		return nil, fmt.Errorf("identity: %w", err)
	}
	if typ != 0 || len(data) != ed25519.PublicKeySize {
		return nil, fmt.Errorf("identity is not an ed25519 public key")
	}
	return &parsed{payload: rc.Payload, signature: rc.Signature, tc: tc, pub: data}, nil
}

// reference is the harness's acceptability model of C02.
type reference struct {
	w          *aclhist.World
	recIdx     map[string]int    // ACL record id -> index in the generated history
	nameByPub  map[string]string // raw public key -> account name
	known      int               // number of ACL records the receiver holds locally
	rootId     string
	rootDerive bool
	rootAclIdx int
}

func newReference(w *aclhist.World) *reference {
	r := &reference{w: w, recIdx: map[string]int{}, nameByPub: map[string]string{}}
	for i, rec := range w.Log {
		r.recIdx[rec.Id] = i
	}
	for _, a := range w.Accounts {
		raw, _ := a.Pub.Raw()
		r.nameByPub[string(raw)] = a.Name
	}
	raw, _ := w.Observer.Pub.Raw()
	r.nameByPub[string(raw)] = "observer"
	return r
}

type verdict struct {
	ok     bool
	reason string // stable class of the first failed condition
	p      *parsed
	aclIdx int
	author string
}

// eval decides acceptability of (id, raw) given the cited ACL positions of the
// changes already attached (citedOf: attached id -> cited ACL index, -1 for a
// derived root).
func (r *reference) eval(id string, raw []byte, citedOf func(id string) (int, bool)) verdict {
	if refCid(raw) != id {
		return verdict{reason: "id-is-not-content-hash"}
	}
	p, err := parseChange(raw)
	if err != nil {
		return verdict{reason: "undecodable"}
	}
	v := verdict{p: p, aclIdx: -1}
	if !ed25519.Verify(ed25519.PublicKey(p.pub), p.payload, p.signature) {
		v.reason = "signature-does-not-verify"
		return v
	}
	name, ok := r.nameByPub[string(p.pub)]
	v.author = name
	idx, okRec := r.recIdx[p.tc.AclHeadId]
	if !okRec || idx >= r.known {
		v.reason = "cited-acl-record-unknown-locally"
		return v
	}
	v.aclIdx = idx
	if !ok || name == "observer" {
		v.reason = "identity-never-a-member"
		return v
	}
	if !aclhist.CanWrite(r.w.PermAt(name, idx)) {
		v.reason = "no-write-permission-at-cited-record:" + aclhist.PermName(r.w.PermAt(name, idx))
		return v
	}
	for _, pid := range p.tc.TreeHeadIds {
		pi, attached := citedOf(pid)
		if !attached {
			continue // not attached: the change cannot be part of the tree yet; nothing to compare
		}
		if pi < 0 {
			continue // derived root: cites nothing
		}
		if idx < pi {
			v.reason = "cited-acl-record-older-than-a-parents"
			return v
		}
	}
	v.ok = true
	return v
}
