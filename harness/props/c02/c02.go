// Package c02: only authentic, authorised changes are ever attached or
// persisted. Changes are hand-built with the real ChangeBuilder citing every
// position of a generated ACL history, mutated, and delivered alone or inside
// batches of valid changes to a verifying tree on real any-store storage. The
// oracle is one-directional (DESIGN C02, observation O-1).
package c02

import (
	"context"
	"fmt"
	"path/filepath"
	"sort"
	"strings"

	anystore "github.com/anyproto/any-store"

	"github.com/anyproto/any-sync/commonspace/object/acl/list"
	"github.com/anyproto/any-sync/commonspace/object/tree/objecttree"
	"github.com/anyproto/any-sync/commonspace/object/tree/treechangeproto"
	"github.com/anyproto/any-sync/util/crypto"

	"verifharness/engines/aclhist"
	"verifharness/lib"
)

type Prop struct{}

func (Prop) ID() string    { return "C02" }
func (Prop) Level() string { return "exploration" }
func (Prop) Rule() string {
	return "per case one ACL history built through the real record builders (owner; writer w granted by add / request+accept / open invite, demoted to reader, re-promoted, removed, re-added by add / request / permission change; stable writer v; reader r; never-member n; filler rotations and invites) and one verifying tree (BuildObjectTree, signature verification on) on real any-store storage whose ACL view is a validating list of a non-member (full log, or a prefix that catches up mid-case; signed root or derived root). Candidates: w citing EVERY record position, plus owner / v / r / n at random positions, built with the real ChangeBuilder.Build on the current heads or on older attached changes. Per candidate ~45 mutants (payload / signature / framing byte, truncation, extension, id, swapped / foreign / empty signature, identity replaced with and without re-signing, cited ACL record replaced with and without re-signing, unknown / other position, parents edited with and without re-signing), each delivered alone, a sample at every position of a batch of 3 fresh valid changes, plus an orphan-first pattern (valid child cached unattached, then parent + same-id mutant). Every delivery is judged by the harness's own acceptability model computed from the delivered bytes (independent CID, stdlib ed25519, the harness's replay of permissions at the cited record, cited-record-known, not-older-than-parents): nothing unacceptable may be attached, iterated or stored, and a delivery that returns an error or adds nothing must leave Heads(), IterateRoot ids, stored ids and the head-storage entry unchanged. Acceptance of acceptable changes is counted, not judged. Non-trivial = an acceptable change that was accepted; distinct = (case, author, cited position, delivery class)."
}
func (Prop) Assumptions() []string {
	return []string{
		"acceptability is the harness's reading of the statement: CID, signature under the named identity, write permission at the cited record per the harness's replay of its own history, cited record known locally, cited record index >= every attached parent's",
		"changes whose parents are not attached are kept unattached by the tree and are not part of it; they are not judged until they appear in Heads/IterateRoot/storage",
		"the derived (unsigned) root is excepted as stated; other fields (timestamp, snapshot base, data type) are outside the statement",
		"over-rejection of acceptable changes (e.g. observation O-1 after re-adding through AccountsAdd) is reported in counters only",
	}
}

func (Prop) Plan(tier string) []lib.Workload {
	if tier == "thorough" {
		return []lib.Workload{{Name: "deliveries", Cases: 2400, MinNontrivial: 20000}}
	}
	return []lib.Workload{{Name: "deliveries", Cases: 48, MinNontrivial: 500}}
}

func (Prop) RunCase(c *lib.Case) { runCase(c) }

type I = aclhist.Intent

// buildHistory drives writer w through grant / demote / remove / re-add.
func buildHistory(c *lib.Case, w *aclhist.World) {
	rng := c.Rng
	do := func(in I) bool {
		ok := w.Do(in)
		if ok {
			c.Count("acl.accepted."+in.Kind, 1)
		} else {
			c.Count("acl.refused."+in.Kind, 1)
		}
		return ok
	}
	filler := func() {
		switch rng.Intn(6) {
		case 0:
			do(I{Kind: "rotate", Actor: "owner"})
		case 1:
			do(I{Kind: "invite_req", Actor: "owner"})
		case 2:
			if w.Perm("r") == aclhist.None {
				do(I{Kind: "add", Actor: "owner", Target: "r", Perm: aclhist.Reader})
			} else {
				do(I{Kind: "rotate", Actor: "owner"})
			}
		case 3:
			if w.Perm("v") == aclhist.None {
				do(I{Kind: "add", Actor: "owner", Target: "v", Perm: aclhist.Writer})
			}
		}
	}
	grant := func() {
		exMember := len(w.Hist["w"]) > 0
		switch k := rng.Intn(5); {
		case k == 0 || k == 1:
			do(I{Kind: "add", Actor: "owner", Target: "w", Perm: aclhist.Writer})
		case k == 2:
			var inv string
			for _, iv := range w.Invites {
				if iv.Live && !iv.Open {
					inv = iv.Name
				}
			}
			if inv == "" {
				if !do(I{Kind: "invite_req", Actor: "owner"}) {
					return
				}
				inv = w.Invites[len(w.Invites)-1].Name
			}
			if do(I{Kind: "request_join", Actor: "w", Invite: inv}) {
				do(I{Kind: "accept", Actor: "owner", Target: "w", Perm: aclhist.Writer})
			}
		case k == 3:
			if do(I{Kind: "invite_open", Actor: "owner", Perm: aclhist.Writer}) {
				do(I{Kind: "invite_join", Actor: "w", Invite: w.Invites[len(w.Invites)-1].Name})
			}
		default:
			if exMember {
				// as the code stands a permission change re-admits an account without permissions (F-C05-1)
				do(I{Kind: "perm_change", Actor: "owner", Target: "w", Perm: aclhist.Writer})
			}
		}
		if w.Perm("w") == aclhist.None {
			do(I{Kind: "add", Actor: "owner", Target: "w", Perm: aclhist.Writer})
		}
	}
	if rng.Intn(2) == 0 {
		do(I{Kind: "add", Actor: "owner", Target: "v", Perm: aclhist.Writer})
	}
	for i := rng.Intn(3); i > 0; i-- {
		filler()
	}
	transitions := 4 + rng.Intn(5)
	for t := 0; t < transitions; t++ {
		switch p := w.Perm("w"); {
		case p == aclhist.None:
			grant()
		case p == aclhist.Writer:
			if x := rng.Intn(8); x < 3 {
				do(I{Kind: "perm_change", Actor: "owner", Target: "w", Perm: aclhist.Reader})
			} else if x == 3 {
				// one record changes w twice: confirmed as writer, then demoted - the record's verdict on w is "reader"
				do(I{Kind: "perm_change_twice", Actor: "owner", Target: "w", Perm: aclhist.Writer, Perm2: aclhist.Reader})
			} else if rng.Intn(4) == 0 {
				if do(I{Kind: "leave_request", Actor: "w"}) {
					do(I{Kind: "remove", Actor: "owner", Target: "w"})
				}
			} else {
				do(I{Kind: "remove", Actor: "owner", Target: "w"})
			}
		default: // reader
			if x := rng.Intn(6); x < 2 {
				do(I{Kind: "remove", Actor: "owner", Target: "w"})
			} else if x == 2 {
				// promoted and demoted again inside one record: w stays a reader
				do(I{Kind: "perm_change_twice", Actor: "owner", Target: "w", Perm: aclhist.Writer, Perm2: aclhist.Reader})
			} else if x == 3 {
				do(I{Kind: "perm_change_twice", Actor: "owner", Target: "w", Perm: aclhist.Reader, Perm2: aclhist.Writer})
			} else {
				do(I{Kind: "perm_change", Actor: "owner", Target: "w", Perm: aclhist.Writer})
			}
		}
		if rng.Intn(3) == 0 {
			filler()
		}
	}
	if w.Perm("v") == aclhist.None {
		do(I{Kind: "add", Actor: "owner", Target: "v", Perm: aclhist.Writer})
	}
	if w.Perm("r") == aclhist.None {
		do(I{Kind: "add", Actor: "owner", Target: "r", Perm: aclhist.Reader})
	}
}

// snapshot is the four observations of the statement.
type snapshot struct {
	heads      []string
	iter       []string
	stored     []string
	storedRaw  map[string][]byte
	headsEntry []string
}

func sortedCopy(s []string) []string {
	o := append([]string(nil), s...)
	sort.Strings(o)
	return o
}

func eq(a, b []string) bool {
	if len(a) != len(b) {
		return false
	}
	for i := range a {
		if a[i] != b[i] {
			return false
		}
	}
	return true
}

type runner struct {
	c      *lib.Case
	w      *aclhist.World
	ref    *reference
	tree   objecttree.ObjectTree
	st     objecttree.Storage
	acl    list.AclList
	mut    *mutator
	cb     objecttree.ChangeBuilder
	coll   anystore.Collection
	rootId string

	cited    map[string]int // attached id -> cited ACL index (-1 derived root)
	sigs     map[string][][]byte
	snap     snapshot
	seq      int
	reported map[string]bool
	dead     bool
	log      []string
}

// takeSnapshot observes the tree. Storage is observed through the collection
// count plus point lookups of the delivered ids; whenever the count does not
// match what that explains (and at start / end) the whole storage is scanned.
func (r *runner) takeSnapshot(full bool, delivered []string) (snapshot, error) {
	var s snapshot
	ctx := context.Background()
	s.heads = sortedCopy(r.tree.Heads())
	ids, err := aclhist.IterIds(r.tree)
	if err != nil {
		return s, fmt.Errorf("iterate: %w", err)
	}
	s.iter = ids
	he, err := r.st.Heads(ctx)
	if err != nil {
		return s, fmt.Errorf("heads entry: %w", err)
	}
	s.headsEntry = sortedCopy(he)
	if !full {
		cnt, err := r.coll.Count(ctx)
		if err != nil {
			return s, fmt.Errorf("count: %w", err)
		}
		prev := r.snap
		var newIds []string
		newRaw := map[string][]byte{}
		seen := map[string]bool{}
		for _, id := range delivered {
			if seen[id] {
				continue
			}
			seen[id] = true
			sc, gerr := r.st.Get(ctx, id)
			if gerr != nil {
				continue
			}
			raw := append([]byte(nil), sc.RawChange...)
			if old, was := prev.storedRaw[id]; was {
				if string(old) != string(raw) {
					newRaw[id] = raw // bytes replaced: reported by the caller
				}
				continue
			}
			newIds = append(newIds, id)
			newRaw[id] = raw
		}
		if cnt == len(prev.stored)+len(newIds) {
			r.c.Count("storage.observed_by_count_and_lookups", 1)
			if len(newRaw) == 0 {
				s.stored, s.storedRaw = prev.stored, prev.storedRaw
				return s, nil
			}
			s.stored = append(append([]string(nil), prev.stored...), newIds...)
			s.storedRaw = make(map[string][]byte, len(prev.storedRaw)+len(newRaw))
			for k, v := range prev.storedRaw {
				s.storedRaw[k] = v
			}
			for k, v := range newRaw {
				s.storedRaw[k] = v
			}
			return s, nil
		}
	}
	r.c.Count("storage.observed_by_full_scan", 1)
	stored, err := aclhist.StoredChanges(r.st)
	if err != nil {
		return s, fmt.Errorf("storage scan: %w", err)
	}
	s.storedRaw = map[string][]byte{}
	for _, sc := range stored {
		s.stored = append(s.stored, sc.Id)
		s.storedRaw[sc.Id] = sc.RawChange
	}
	return s, nil
}

func (r *runner) violation(key, what string, detail map[string]any) {
	if r.reported[key] {
		r.c.Count("violation_repeats_in_case", 1)
		return
	}
	r.reported[key] = true
	detail["acl_history"] = r.w.AcceptedOps()
	n := len(r.log)
	if n > 12 {
		n = 12
	}
	detail["last_deliveries"] = append([]string(nil), r.log[len(r.log)-n:]...)
	r.c.Violation(key, what, detail)
}

func posClass(i, n int) string {
	if n == 1 {
		return "alone"
	}
	return fmt.Sprintf("batch-of-%d@%d", n, i)
}

// classBase strips the id-kept / id-recomputed suffix for counters of rejected reasons.
func classBase(s string) string { return s }

// deliver offers a batch and applies the one-directional oracle.
func (r *runner) deliver(batch []item, focus int, pattern string) (accepted map[string]bool) {
	if r.dead {
		return nil
	}
	r.seq++
	before := r.snap
	var raws []*treechangeproto.RawTreeChangeWithId
	byId := map[string][]item{}
	for _, it := range batch {
		raws = append(raws, it.proto())
		byId[it.id] = append(byId[it.id], it)
	}
	r.tree.Lock()
	res, err := r.tree.AddRawChanges(context.Background(), objecttree.RawChangesPayload{NewHeads: []string{batch[len(batch)-1].id}, RawChanges: raws})
	r.tree.Unlock()
	r.c.Eval(1)
	var deliveredIds []string
	for _, it := range batch {
		deliveredIds = append(deliveredIds, it.id)
	}
	after, serr := r.takeSnapshot(false, deliveredIds)
	if serr != nil {
		r.c.Inconclusive("snapshot failed: " + serr.Error())
		r.dead = true
		return nil
	}
	r.snap = after
	fc := batch[focus]
	outcome := "error"
	if err == nil {
		outcome = "added"
		if len(res.Added) == 0 {
			outcome = "nothing-added"
		}
	}
	r.log = append(r.log, fmt.Sprintf("#%d %s %s focus=%s -> %s", r.seq, pattern, posClass(focus, len(batch)), fc.class, outcome))
	if len(r.log) > 64 {
		r.log = r.log[len(r.log)-32:]
	}
	r.c.Count("deliveries.total", 1)
	r.c.Count("deliveries.position."+pattern+"."+posClass(focus, len(batch))+"."+outcome, 1)

	// ---- (2) error or nothing added => the four observations are unchanged
	if err != nil || len(res.Added) == 0 {
		r.c.Count("checks.rejected_delivery_leaves_state", 1)
		diff := ""
		switch {
		case !eq(before.heads, after.heads):
			diff = "heads"
		case !eq(before.iter, after.iter):
			diff = "iteration"
		case !eq(sortedCopy(before.stored), sortedCopy(after.stored)):
			diff = "stored-ids"
		case !eq(before.headsEntry, after.headsEntry):
			diff = "head-storage-entry"
		}
		if diff != "" {
			r.violation("state-changed-by-rejected-delivery:"+diff+":"+outcome, "a delivery that returned an error / added nothing changed the tree",
				map[string]any{"focus_class": fc.class, "position": posClass(focus, len(batch)), "pattern": pattern, "error": fmt.Sprint(err),
					"heads_before": before.heads, "heads_after": after.heads, "iter_before_len": len(before.iter), "iter_after_len": len(after.iter),
					"stored_before_len": len(before.stored), "stored_after_len": len(after.stored), "heads_entry_before": before.headsEntry, "heads_entry_after": after.headsEntry})
		}
	}
	// ---- (1) nothing unacceptable is attached, iterated or stored
	accepted = map[string]bool{}
	beforeIter := map[string]bool{}
	for _, id := range before.iter {
		beforeIter[id] = true
	}
	citedOf := func(id string) (int, bool) { v, ok := r.cited[id]; return v, ok }
	judgedBad := map[string]bool{}
	judge := func(id string, raw []byte, where string) {
		if judgedBad[id] {
			return
		}
		r.c.Count("checks.new_change_judged."+where, 1)
		cls := "not-in-delivery"
		for _, it := range byId[id] {
			if string(it.raw) == string(raw) {
				cls = it.class
			}
		}
		if cls == "not-in-delivery" && len(byId[id]) > 0 {
			cls = "bytes-differ-from-delivered:" + byId[id][0].class
		}
		v := r.ref.eval(id, raw, citedOf)
		if !v.ok {
			judgedBad[id] = true
			r.violation("unacceptable-change-"+where+":"+v.reason, "a change the statement excludes became part of the tree",
				map[string]any{"delivered_as": cls, "position": posClass(focus, len(batch)), "pattern": pattern, "author": v.author, "cited_acl_index": v.aclIdx,
					"receiver_knows_records": r.ref.known, "add_error": fmt.Sprint(err), "id": id})
			return
		}
		if _, ok := r.cited[id]; !ok {
			r.cited[id] = v.aclIdx
			accepted[id] = true
			r.sigs[v.author] = append(r.sigs[v.author], v.p.signature)
			r.c.Count("accepted.acceptable."+cls, 1)
			r.c.Nontrivial(fmt.Sprintf("%d|%s|%d|%s|%s", r.c.Index, v.author, v.aclIdx, cls, posClass(focus, len(batch))))
		}
	}
	// iteration order new ids in tree order so that parents are judged (and recorded) first
	for _, id := range after.iter {
		if beforeIter[id] || id == r.rootId {
			continue
		}
		raw, ok := after.storedRaw[id]
		where := "attached"
		if !ok {
			// attached but not stored: judge the delivered bytes
			where = "attached-not-stored"
			for _, it := range byId[id] {
				raw = it.raw
			}
		}
		judge(id, raw, where)
	}
	for _, id := range after.stored {
		if _, was := before.storedRaw[id]; was || id == r.rootId {
			if was && string(before.storedRaw[id]) != string(after.storedRaw[id]) {
				r.violation("stored-bytes-replaced", "the stored bytes of an existing change were replaced", map[string]any{"id": id, "focus_class": fc.class})
			}
			continue
		}
		if _, ok := r.cited[id]; ok && refCid(after.storedRaw[id]) == id {
			continue // judged through iteration just now, bytes are the judged ones
		}
		judge(id, after.storedRaw[id], "stored")
	}
	for _, h := range after.heads {
		if _, ok := r.cited[h]; !ok && h != r.rootId && !judgedBad[h] {
			r.violation("head-names-unjudged-change", "Heads() names a change that is neither iterated nor stored", map[string]any{"head": h})
		}
	}
	// ---- counters: accepted / rejected per class (focus item only)
	v := r.ref.eval(fc.id, fc.raw, citedOf)
	refc := "ref-unacceptable"
	if v.ok {
		refc = "ref-acceptable"
	}
	got := "rejected"
	if _, ok := r.cited[fc.id]; ok && string(after.storedRaw[fc.id]) == string(fc.raw) {
		got = "in-tree"
	} else if err == nil {
		got = "ignored-without-error"
	}
	r.c.Count("class."+fc.class+"."+refc+"."+got, 1)
	if !v.ok {
		r.c.Count("unacceptable_by_reason."+v.reason+"."+got, 1)
	} else if got != "in-tree" {
		r.c.Count("over_rejection_counted_not_judged."+fc.class, 1)
		if err != nil {
			r.c.Sample("over-rejection", map[string]any{"class": fc.class, "author": v.author, "cited": v.aclIdx, "error": err.Error(), "acl_history": r.w.AcceptedOps()})
		}
	}
	return accepted
}

// build makes a change with the real ChangeBuilder.
func (r *runner) build(author string, aclIdx int, parents []string) *candidate {
	r.seq++
	bc := objecttree.BuilderContent{
		TreeHeadIds: parents, AclHeadId: r.w.Log[aclIdx].Id, SnapshotBaseId: r.rootId, Unencrypted: true,
		PrivKey: r.mut.keys[author], Content: []byte(fmt.Sprintf("content-%d-%d-%x", r.c.Index, r.seq, r.c.Rng.Uint32())), Timestamp: 1700000000 + int64(r.seq), DataType: "verif",
	}
	if r.c.Rng.Intn(5) == 0 {
		// encrypted flavour: the payload is opaque to C02, the key is arbitrary
		bc.Unencrypted = false
		bc.ReadKey = crypto.NewAES()
		bc.ReadKeyId = r.w.GenAt(aclIdx).RecordId
	}
	_, raw, err := r.cb.Build(bc)
	if err != nil {
		r.c.Inconclusive("ChangeBuilder.Build failed: " + err.Error())
		r.dead = true
		return nil
	}
	return &candidate{item: item{id: raw.Id, raw: raw.RawChange, class: "valid-form"}, bc: bc, author: author, aclIdx: aclIdx}
}

// validChain builds k fresh acceptable changes by writers that are writers at
// the newest locally known record, chained on the current heads.
func (r *runner) validChain(k int) []item {
	var out []item
	parents := append([]string(nil), r.snap.heads...)
	lo := 0
	for _, h := range parents {
		if v := r.cited[h]; v > lo {
			lo = v
		}
	}
	idx := r.ref.known - 1
	if idx > lo && r.c.Rng.Intn(2) == 0 {
		idx = lo + r.c.Rng.Intn(idx-lo+1)
	}
	for i := 0; i < k; i++ {
		author := "owner"
		if r.c.Rng.Intn(2) == 0 && aclhist.CanWrite(r.w.PermAt("v", idx)) && !r.w.ReAddedByAdd["v"] {
			author = "v"
		}
		cnd := r.build(author, idx, parents)
		if cnd == nil {
			return nil
		}
		cnd.class = "valid-filler"
		out = append(out, cnd.item)
		parents = []string{cnd.id}
	}
	return out
}

func (r *runner) stateClass(author string, idx int) string {
	p := r.w.PermAt(author, idx)
	had := false
	for _, e := range r.w.Hist[author] {
		if e.RecIdx <= idx && e.Perm != aclhist.None {
			had = true
		}
	}
	s := aclhist.PermName(p)
	if p == aclhist.None {
		if had {
			s = "removed"
		} else {
			s = "not-yet-member"
		}
	}
	at := ""
	for _, e := range r.w.Hist[author] {
		if e.RecIdx == idx {
			at = "@event-record"
		}
	}
	return s + at
}

func runCase(c *lib.Case) {
	w, err := aclhist.New(c.Rng, []string{"w", "v", "r", "n"})
	if err != nil {
		c.Inconclusive("world: " + err.Error())
		return
	}
	buildHistory(c, w)
	H := w.Head()
	c.Count("acl.histories", 1)
	c.Count("acl.records", int64(H+1))
	if w.ReAddedByAdd["w"] {
		c.Count("acl.histories_with_readd_through_accounts_add(O-1)", 1)
	}
	ref := newReference(w)
	// ---- receiver: validating list of a non-member, full log or a prefix that catches up later
	known := H + 1
	catchUp := c.Index%3 == 2 && H >= 3
	if catchUp {
		known = 2 + c.Rng.Intn(H-1)
	}
	ref.known = known
	acl, err := w.FreshView(w.Observer.Keys, known, true)
	if err != nil {
		c.Inconclusive("receiver acl: " + err.Error())
		return
	}
	db, err := aclhist.OpenTreeDB(filepath.Join(c.TmpDir, "db"))
	if err != nil {
		c.Inconclusive("db: " + err.Error())
		return
	}
	defer db.Close()
	derived := c.Index%4 == 3
	var root *treechangeproto.RawTreeChangeWithId
	if derived {
		root, err = objecttree.DeriveObjectTreeRoot(objecttree.ObjectTreeDerivePayload{ChangeType: "verif", ChangePayload: []byte{byte(c.Index)}, SpaceId: w.SpaceId}, acl)
		c.Count("trees.derived_root", 1)
	} else {
		_, root, err = objecttree.NewChangeBuilder(crypto.NewKeyStorage(), nil).BuildRoot(objecttree.InitialContent{
			AclHeadId: w.Root.Id, PrivKey: w.Owner.Keys.SignKey, SpaceId: w.SpaceId, Seed: []byte{byte(c.Index), 1}, ChangeType: "verif", Timestamp: 1700000000})
		c.Count("trees.signed_root", 1)
	}
	if err != nil {
		c.Inconclusive("root: " + err.Error())
		return
	}
	st, err := db.CreateTreeStorage(root)
	if err != nil {
		c.Inconclusive("tree storage: " + err.Error())
		return
	}
	tree, err := objecttree.BuildObjectTree(st, acl)
	if err != nil {
		c.Inconclusive("build tree: " + err.Error())
		return
	}
	r := &runner{c: c, w: w, ref: ref, tree: tree, st: st, acl: acl, rootId: root.Id, cited: map[string]int{}, sigs: map[string][][]byte{}, reported: map[string]bool{}}
	ref.rootId, ref.rootDerive = root.Id, derived
	if derived {
		r.cited[root.Id] = -1
	} else {
		r.cited[root.Id] = 0
	}
	r.cb = objecttree.NewChangeBuilder(crypto.NewKeyStorage(), root)
	keys := map[string]crypto.PrivKey{}
	idp := map[string][]byte{}
	for _, a := range w.Accounts {
		keys[a.Name] = a.Keys.SignKey
		idp[a.Name] = a.IdProto
	}
	r.mut = &mutator{rng: c.Rng, builder: r.cb, keys: keys, idProto: idp}
	r.mut.otherSig = func(author string) []byte {
		if l := r.sigs[author]; len(l) > 0 {
			return l[c.Rng.Intn(len(l))]
		}
		if l := r.sigs["owner"]; len(l) > 0 {
			return l[c.Rng.Intn(len(l))]
		}
		return nil
	}
	if r.coll, err = db.DB.Collection(context.Background(), objecttree.CollName); err != nil {
		c.Inconclusive("collection: " + err.Error())
		return
	}
	if r.snap, err = r.takeSnapshot(true, nil); err != nil {
		c.Inconclusive("snapshot: " + err.Error())
		return
	}
	// ---- canary: signature verification must be on in this tree flavour
	{
		cn := r.build("owner", 0, []string{root.Id})
		if cn == nil {
			return
		}
		p, _ := parseChange(cn.raw)
		bad := assemble(p.payload, make([]byte, 64))
		r.deliver([]item{{id: refCid(bad), raw: bad, class: "canary:zero-signature"}}, 0, "canary")
		r.deliver([]item{cn.item}, 0, "canary")
		if _, ok := r.cited[cn.id]; !ok {
			c.Inconclusive("canary valid change by the owner was not accepted")
			return
		}
	}
	var aclIds []string
	for _, rec := range w.Log {
		aclIds = append(aclIds, rec.Id)
	}
	// ---- candidates: w at every position, the others at random positions
	type plan struct {
		author string
		idx    int
	}
	var plans []plan
	for i := 0; i <= H; i++ {
		plans = append(plans, plan{"w", i})
	}
	for _, a := range []string{"owner", "v", "r", "n", "v", "owner"} {
		plans = append(plans, plan{a, c.Rng.Intn(H + 1)})
	}
	c.Rng.Shuffle(len(plans), func(i, j int) { plans[i], plans[j] = plans[j], plans[i] })
	caughtUp := !catchUp
	for pi, pl := range plans {
		if r.dead {
			break
		}
		if !caughtUp && pi >= len(plans)/2 {
			// the receiver learns the rest of the ACL log
			for i := ref.known; i <= H; i++ {
				if err := acl.AddRawRecord(w.Log[i]); err != nil {
					c.Inconclusive("receiver acl catch-up: " + err.Error())
					r.dead = true
					break
				}
			}
			ref.known = H + 1
			caughtUp = true
			c.Count("receiver.acl_catch_ups", 1)
			continue
		}
		// parents: an attached change whose cited record is not newer than the candidate's (so that the
		// permission condition, not the ordering condition, decides), sometimes the heads whatever they cite
		var parents []string
		if c.Rng.Intn(5) == 0 {
			parents = append([]string(nil), r.snap.heads...)
		} else {
			var elig []string
			for _, id := range r.snap.iter {
				if v, ok := r.cited[id]; ok && v <= pl.idx {
					elig = append(elig, id)
				}
			}
			if len(elig) == 0 {
				elig = []string{root.Id}
			}
			// prefer recent ones
			k := len(elig) - 1 - c.Rng.Intn(min(len(elig), 4))
			parents = []string{elig[k]}
			if len(elig) > 1 && c.Rng.Intn(4) == 0 {
				if o := elig[c.Rng.Intn(len(elig))]; o != parents[0] {
					parents = append(parents, o)
				}
			}
		}
		cnd := r.build(pl.author, pl.idx, parents)
		if cnd == nil {
			break
		}
		sc := r.stateClass(pl.author, pl.idx)
		c.Count("candidates."+pl.author+"."+sc, 1)
		muts := r.mut.mutants(cnd, r.snap.iter, aclIds)
		// "cited record older than a parent's": an owner change on the heads citing the ACL root
		maxParent := 0
		for _, h := range r.snap.heads {
			if v := r.cited[h]; v > maxParent {
				maxParent = v
			}
		}
		if maxParent > 0 {
			for _, a := range []string{"owner", pl.author} {
				older := c.Rng.Intn(maxParent)
				bc := cnd.bc
				bc.PrivKey, bc.AclHeadId, bc.TreeHeadIds = keys[a], w.Log[older].Id, append([]string(nil), r.snap.heads...)
				if _, raw, err := r.cb.Build(bc); err == nil {
					muts = append(muts, item{id: raw.Id, raw: raw.RawChange, class: "aclhead:older-than-parents:resigned-by-" + roleOf(a, pl.author)})
				}
			}
		}
		for _, m := range muts {
			r.deliver([]item{m}, 0, "mutant")
		}
		// a sample of mutants at every position of a batch of valid changes
		nb := 3
		if c.Quick() {
			nb = 2
		}
		for k := 0; k < nb && len(muts) > 0 && !r.dead; k++ {
			m := muts[c.Rng.Intn(len(muts))]
			for pos := 0; pos <= 3 && !r.dead; pos++ {
				chain := r.validChain(3)
				if chain == nil {
					break
				}
				batch := append(append(append([]item(nil), chain[:pos]...), m), chain[pos:]...)
				r.deliver(batch, pos, "mutant-in-batch")
			}
		}
		// orphan-first: a valid child is cached unattached, then its parent arrives together with a same-id mutant of the child
		if c.Rng.Intn(3) == 0 && !r.dead {
			par := r.build("owner", ref.known-1, append([]string(nil), r.snap.heads...))
			if par != nil {
				child := r.build(pl.author, pl.idx, []string{par.id})
				if child != nil {
					r.deliver([]item{child.item}, 0, "orphan-child-first")
					rg := locate(child.raw)
					bad := flipBit(child.raw, rg.payOff+c.Rng.Intn(rg.payLen), c.Rng)
					r.deliver([]item{{id: par.id, raw: par.raw, class: "valid-filler"}, {id: child.id, raw: bad, class: "orphan-cache:same-id-mutant-after-valid-orphan"}}, 1, "orphan-parent-plus-mutant")
				}
			}
		}
		// finally the unmutated change, alone or inside a batch
		if c.Rng.Intn(3) == 0 {
			chain := r.validChain(2)
			if chain != nil {
				pos := c.Rng.Intn(3)
				batch := append(append(append([]item(nil), chain[:pos]...), cnd.item), chain[pos:]...)
				rv := r.refClass(cnd)
				acc := r.deliver(batch, pos, "valid-form-in-batch")
				r.countValid(pl.author, sc+"."+rv, acc[cnd.id])
			}
		} else {
			rv := r.refClass(cnd)
			acc := r.deliver([]item{cnd.item}, 0, "valid-form")
			r.countValid(pl.author, sc+"."+rv, acc[cnd.id])
		}
	}
	// ---- reopen from storage: everything persisted must be acceptable and the heads must be the stored ones
	if !r.dead {
		r.finalAudit()
	}
	c.Sample("case", map[string]any{"acl_history": w.AcceptedOps(), "receiver_prefix_then_catch_up": catchUp, "derived_root": derived,
		"attached_changes": len(r.snap.iter), "deliveries": r.seq, "last_deliveries": tail(r.log, 6)})
}

func roleOf(a, candidateAuthor string) string {
	if a == "owner" {
		return "owner"
	}
	return "candidate-author"
}

func tail(s []string, n int) []string {
	if len(s) > n {
		return s[len(s)-n:]
	}
	return s
}

// refClass is the reference verdict of an unmutated candidate at delivery time (for counters only).
func (r *runner) refClass(cnd *candidate) string {
	v := r.ref.eval(cnd.id, cnd.raw, func(id string) (int, bool) { x, ok := r.cited[id]; return x, ok })
	if !v.ok {
		return "ref-unacceptable(" + v.reason + ")"
	}
	if r.w.ReAddedByAdd[cnd.author] {
		last := -1
		for _, e := range r.w.Hist[cnd.author] {
			if e.Cause == "accounts_add" {
				last = e.RecIdx
			}
		}
		if cnd.aclIdx < last {
			return "ref-acceptable(cited-before-a-later-re-add:O-1)"
		}
	}
	return "ref-acceptable"
}

func (r *runner) countValid(author, stateClass string, accepted bool) {
	o := "rejected"
	if accepted {
		o = "accepted"
	}
	r.c.Count("valid-form."+author+"."+stateClass+"."+o, 1)
}

// finalAudit judges every stored change again from the stored bytes and
// reopens the tree from storage.
func (r *runner) finalAudit() {
	citedOf := func(id string) (int, bool) { v, ok := r.cited[id]; return v, ok }
	if full, err := r.takeSnapshot(true, nil); err == nil {
		if !eq(sortedCopy(full.stored), sortedCopy(r.snap.stored)) {
			r.violation("storage-differs-from-observed-additions", "the full storage scan at the end of the case holds other changes than the per-delivery observations explain",
				map[string]any{"scanned": len(full.stored), "observed": len(r.snap.stored)})
		}
		for id, raw := range full.storedRaw {
			if old, ok := r.snap.storedRaw[id]; ok && string(old) != string(raw) {
				r.violation("stored-bytes-replaced", "the stored bytes of an existing change were replaced", map[string]any{"id": id, "phase": "final-audit"})
			}
		}
		r.snap = full
	}
	for _, id := range r.snap.stored {
		if id == r.rootId {
			continue
		}
		r.c.Count("checks.final_stored_change_judged", 1)
		if v := r.ref.eval(id, r.snap.storedRaw[id], citedOf); !v.ok {
			r.violation("unacceptable-change-stored:"+v.reason, "a change the statement excludes is in storage at the end of the case", map[string]any{"id": id, "author": v.author, "cited_acl_index": v.aclIdx, "phase": "final-audit"})
		}
	}
	// not part of the statement, counted only
	if !eq(r.snap.heads, r.snap.headsEntry) {
		r.c.Count("observed.final_heads_differ_from_head_storage_entry", 1)
	}
	if !eq(sortedCopy(r.snap.iter), sortedCopy(r.snap.stored)) {
		r.c.Count("observed.final_iteration_set_differs_from_stored_set(parentless changes)", 1)
	}
	re, err := objecttree.BuildObjectTree(r.st, r.acl)
	if err != nil {
		r.c.Count("reopen.failed(counted,O-1)", 1)
		r.c.Sample("reopen-failed", map[string]any{"error": err.Error(), "acl_history": r.w.AcceptedOps()})
		return
	}
	r.c.Count("reopen.ok", 1)
	ids, _ := aclhist.IterIds(re)
	for _, id := range ids {
		if _, ok := r.cited[id]; !ok {
			r.violation("reopened-tree-holds-unjudged-change", "the tree rebuilt from storage iterates a change that was never judged acceptable", map[string]any{"id": id})
		}
	}
	_ = strings.Join
}
