// Package porc pins the porcupine dependency (linearizability checker) in the module graph.
package porc

import "github.com/anishathalye/porcupine"

type Model = porcupine.Model
type Operation = porcupine.Operation
