// Package lib is the shared runner of the any-sync runtime-monitoring harness:
// deterministic per-case PRNG, child-process batches, recorder (counters,
// distinct non-trivial cases, samples, violations), known-findings matching,
// evidence and verdict output.
package lib

import (
	"encoding/binary"
	"encoding/json"
	"fmt"
	"hash/fnv"
	"math/rand"
	"os"
	"runtime"
	"runtime/debug"
	"sort"
	"strings"
	"sync"
	"time"
)

// Workload is one family of cases of a property.
type Workload struct {
	Name  string
	Cases int
	// Race: run this workload with the -race flavour of the binary.
	Race bool
	// Batches: number of child processes (0 = min(16, Cases)).
	Batches int
	// BatchTimeout: generous wall-clock watchdog for one child (0 = 20 min).
	BatchTimeout time.Duration
	// CaseTimeout: if > 0 each case runs under an in-process watchdog; a case
	// that does not return is recorded through HangVerdict and the child
	// restarts after it.
	CaseTimeout time.Duration
	// HangIsViolation: a case watchdog hit is a violation (key "hang:<w>")
	// instead of inconclusive. Only for properties that state "never hangs".
	HangIsViolation bool
	// MinNontrivial: the run is broken (exit 2) when fewer distinct
	// non-trivial cases were observed for this workload.
	MinNontrivial int
	Exhaustive    bool
	// MemLimitMB: soft memory limit (debug.SetMemoryLimit is not a hard cap,
	// so the child also polls its own heap and aborts the case).
	MemLimitMB int
}

// Prop is implemented by every property package.
type Prop interface {
	ID() string
	Level() string
	Rule() string
	Assumptions() []string
	Plan(tier string) []Workload
	RunCase(c *Case)
}

// Violation is one observed refutation, reduced to a stable key.
type Violation struct {
	Key      string `json:"key"`
	What     string `json:"what"`
	Workload string `json:"workload"`
	Case     int    `json:"case"`
	Detail   any    `json:"detail,omitempty"`
}

// Rec is the per-batch recorder; it is merged by the parent.
type Rec struct {
	mu          sync.Mutex
	Evaluations int64            `json:"evaluations"`
	Counters    map[string]int64 `json:"counters"`
	Samples     []any            `json:"samples"`
	Violations  []Violation      `json:"violations"`
	Inconcl     []string         `json:"inconclusive"`
	PerWorkload map[string]int64 `json:"per_workload"`
	NTPerWl     map[string]int64 `json:"nontrivial_per_workload"`
	nt          map[uint64]struct{}
	ntWl        map[string]map[uint64]struct{}
	sampleSeen  map[string]int
	// Done is the last case index completed (for restart).
	Done int `json:"done"`
}

func NewRec() *Rec {
	return &Rec{Counters: map[string]int64{}, PerWorkload: map[string]int64{}, NTPerWl: map[string]int64{},
		nt: map[uint64]struct{}{}, ntWl: map[string]map[uint64]struct{}{}, sampleSeen: map[string]int{}, Done: -1}
}

// Case is the context handed to Prop.RunCase.
type Case struct {
	Prop     string
	Workload string
	Index    int
	Tier     string
	Seed     int64
	Rng      *rand.Rand
	Verbose  bool
	TmpDir   string
	rec      *Rec
}

func (c *Case) Quick() bool { return c.Tier != "thorough" }

// Logf prints only in replay/verbose mode.
func (c *Case) Logf(format string, a ...any) {
	if c.Verbose {
		fmt.Printf("  [%s/%s#%d] "+format+"\n", append([]any{c.Prop, c.Workload, c.Index}, a...)...)
	}
}

// Count adds n to a named monitor counter (what was observed).
func (c *Case) Count(name string, n int64) {
	c.rec.mu.Lock()
	c.rec.Counters[name] += n
	c.rec.mu.Unlock()
}

// Eval counts n evaluations (cases / inputs / executions).
func (c *Case) Eval(n int64) {
	c.rec.mu.Lock()
	c.rec.Evaluations += n
	c.rec.PerWorkload[c.Workload] += n
	c.rec.mu.Unlock()
}

// Nontrivial records a distinct non-trivial case by its canonical key.
func (c *Case) Nontrivial(key string) {
	h := fnv.New64a()
	h.Write([]byte(c.Workload))
	h.Write([]byte{0})
	h.Write([]byte(key))
	v := h.Sum64()
	c.rec.mu.Lock()
	c.rec.nt[v] = struct{}{}
	m := c.rec.ntWl[c.Workload]
	if m == nil {
		m = map[uint64]struct{}{}
		c.rec.ntWl[c.Workload] = m
	}
	m[v] = struct{}{}
	c.rec.mu.Unlock()
}

// Sample keeps up to 2 samples per class.
func (c *Case) Sample(class string, v any) {
	c.rec.mu.Lock()
	defer c.rec.mu.Unlock()
	k := c.Workload + "/" + class
	if c.rec.sampleSeen[k] >= 2 {
		return
	}
	c.rec.sampleSeen[k]++
	c.rec.Samples = append(c.rec.Samples, map[string]any{"workload": c.Workload, "class": class, "case": c.Index, "value": v})
}

// Violation records a refutation. key must name the failing input class /
// call site, not the property (see DESIGN 5).
func (c *Case) Violation(key, what string, detail any) {
	c.rec.mu.Lock()
	c.rec.Violations = append(c.rec.Violations, Violation{Key: key, What: what, Workload: c.Workload, Case: c.Index, Detail: detail})
	c.rec.mu.Unlock()
	if c.Verbose {
		b, _ := json.MarshalIndent(detail, "    ", " ")
		fmt.Printf("  !! violation key=%s: %s\n    %s\n", key, what, b)
	}
}

// Inconclusive records a case whose verdict could not be decided.
func (c *Case) Inconclusive(why string) {
	c.rec.mu.Lock()
	c.rec.Inconcl = append(c.rec.Inconcl, fmt.Sprintf("%s#%d: %s", c.Workload, c.Index, why))
	c.rec.mu.Unlock()
}

// SubSeed derives the per-case seed.
func SubSeed(seed int64, prop, workload string, index int) int64 {
	h := fnv.New64a()
	var b [8]byte
	binary.LittleEndian.PutUint64(b[:], uint64(seed))
	h.Write(b[:])
	h.Write([]byte(prop))
	h.Write([]byte{0})
	h.Write([]byte(workload))
	binary.LittleEndian.PutUint64(b[:], uint64(index))
	h.Write(b[:])
	x := h.Sum64()
	// splitmix finaliser
	x ^= x >> 30
	x *= 0xbf58476d1ce4e5b9
	x ^= x >> 27
	x *= 0x94d049bb133111eb
	x ^= x >> 31
	return int64(x &^ (1 << 63))
}

// PanicKey reduces a recovered panic to "panic:<innermost non-runtime frame>:<kind>".
func PanicKey(v any, stack []byte) (key string, inRepo bool) {
	frame := InnermostFrame(string(stack))
	kind := fmt.Sprint(v)
	if e, ok := v.(runtime.Error); ok {
		kind = e.Error()
	}
	kind = normaliseMsg(kind)
	return "panic:" + frame + ":" + kind, strings.Contains(frame, "any-sync/") || strings.HasPrefix(frame, "github.com/anyproto/any-sync")
}

func normaliseMsg(s string) string {
	// strip numbers so that "index out of range [5] with length 3" is stable
	var sb strings.Builder
	lastDigit := false
	for _, r := range s {
		if r >= '0' && r <= '9' {
			if !lastDigit {
				sb.WriteByte('N')
			}
			lastDigit = true
			continue
		}
		lastDigit = false
		sb.WriteRune(r)
	}
	out := sb.String()
	if len(out) > 100 {
		out = out[:100]
	}
	return out
}

// InnermostFrame returns the first function in a stack dump that is not in
// the runtime, the harness lib recover path, or testing helpers.
func InnermostFrame(stack string) string {
	lines := strings.Split(stack, "\n")
	for _, ln := range lines {
		if strings.HasPrefix(ln, "\t") || strings.HasPrefix(ln, " ") || ln == "" {
			continue
		}
		if strings.HasPrefix(ln, "goroutine ") || strings.HasPrefix(ln, "panic(") || strings.HasPrefix(ln, "runtime.") ||
			strings.HasPrefix(ln, "runtime/") || strings.HasPrefix(ln, "panic:") || strings.HasPrefix(ln, "[signal") ||
			strings.HasPrefix(ln, "created by") || strings.HasPrefix(ln, "fatal error") || strings.HasPrefix(ln, "internal/") ||
			strings.HasPrefix(ln, "sync.") || strings.HasPrefix(ln, "sync/") {
			continue
		}
		if i := strings.LastIndex(ln, "("); i > 0 {
			ln = ln[:i]
		}
		if strings.HasPrefix(ln, "verifharness/lib.") {
			continue
		}
		return ln
	}
	return "unknown"
}

// FirstRepoFrame returns the first frame inside any-sync in a stack.
func FirstRepoFrame(stack string) string {
	for _, ln := range strings.Split(stack, "\n") {
		if strings.HasPrefix(ln, "github.com/anyproto/any-sync/") {
			if i := strings.LastIndex(ln, "("); i > 0 {
				ln = ln[:i]
			}
			return ln
		}
	}
	return ""
}

// runCaseGuarded runs one case under recover and the optional watchdog.
// returns hung=true when the case watchdog fired (the goroutine is leaked and
// the child must restart).
func runCaseGuarded(p Prop, c *Case, wl Workload) (hung bool) {
	done := make(chan struct{})
	go func() {
		defer close(done)
		defer func() {
			if r := recover(); r != nil {
				st := debug.Stack()
				key, inRepo := PanicKey(r, st)
				if inRepo {
					c.Violation(key, fmt.Sprintf("panic in repository code: %v", r), map[string]any{"stack": trimStack(string(st))})
				} else {
					c.rec.mu.Lock()
					c.rec.Inconcl = append(c.rec.Inconcl, fmt.Sprintf("HARNESS-PANIC %s#%d: %v\n%s", c.Workload, c.Index, r, trimStack(string(st))))
					c.rec.mu.Unlock()
				}
			}
		}()
		p.RunCase(c)
	}()
	if wl.CaseTimeout <= 0 {
		<-done
		return false
	}
	t := time.NewTimer(wl.CaseTimeout)
	defer t.Stop()
	select {
	case <-done:
		return false
	case <-t.C:
		buf := make([]byte, 1<<20)
		n := runtime.Stack(buf, true)
		dump := string(buf[:n])
		if wl.HangIsViolation {
			c.Violation("hang:"+c.Workload+":"+hangFrame(dump), "case did not return within the watchdog", map[string]any{"goroutines": trimStack(dump)})
		} else {
			c.Inconclusive("case watchdog fired: " + hangFrame(dump))
		}
		return true
	}
}

// hangFrame finds the repo frame of a parked goroutine that runs RunCase.
func hangFrame(dump string) string {
	for _, g := range strings.Split(dump, "\n\n") {
		if strings.Contains(g, "RunCase") {
			if f := FirstRepoFrame(g); f != "" {
				return f
			}
		}
	}
	for _, g := range strings.Split(dump, "\n\n") {
		if f := FirstRepoFrame(g); f != "" {
			return f
		}
	}
	return "unknown"
}

func trimStack(s string) string {
	if len(s) > 6000 {
		return s[:6000] + "\n…"
	}
	return s
}

// sortedKeys helper
func sortedKeys[V any](m map[string]V) []string {
	out := make([]string, 0, len(m))
	for k := range m {
		out = append(out, k)
	}
	sort.Strings(out)
	return out
}

// Getenv with default
func envOr(k, d string) string {
	if v := os.Getenv(k); v != "" {
		return v
	}
	return d
}
