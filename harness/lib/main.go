package lib

import (
	"github.com/anyproto/any-sync/app/logger"

	"bufio"
	"context"
	"encoding/binary"
	"encoding/json"
	"flag"
	"fmt"
	"math/rand"
	"os"
	"os/exec"
	"path/filepath"
	"regexp"
	"runtime"
	"runtime/debug"
	"sort"
	"strconv"
	"strings"
	"sync"
	"syscall"
	"time"
)

const verifDir = "/verif"

// outDir is where evidence/ and replay/ are written: /verif for registered
// runs, a scratch directory for development runs against an alternate tree.
func outBase() string { return envOr("VERIF_OUT_DIR", verifDir) }

// Main is the entry point of every per-property binary.
func Main(p Prop) {
	var (
		worker  = flag.Bool("worker", false, "child mode")
		wlName  = flag.String("w", "", "workload (child / replay)")
		batch   = flag.Int("batch", 0, "batch index")
		of      = flag.Int("of", 1, "number of batches")
		from    = flag.Int("from", 0, "first case index to consider (restart)")
		outDir  = flag.String("out", "", "child output dir")
		replay  = flag.String("replay", "", "replay file")
		tier    = flag.String("tier", envOr("VERIF_TIER", "quick"), "quick|thorough")
		oneCase = flag.Int("case", -1, "run a single case of workload -w verbosely")
		only    = flag.String("only", "", "comma separated workloads to run (debugging; evidence is marked partial)")
	)
	flag.Parse()
	// the repository logs at debug level by default; silence everything below fatal
	if os.Getenv("VERIF_REPO_LOG") == "" {
		logger.SetNamedLevels([]logger.NamedLevel{{Name: "*", Level: "fatal"}})
	}
	seed := int64(1)
	if s := os.Getenv("VERIF_SEED"); s != "" {
		if v, err := strconv.ParseInt(s, 10, 64); err == nil {
			seed = v
		}
	}
	if *tier != "thorough" {
		*tier = "quick"
	}
	if *worker {
		os.Exit(runWorker(p, *tier, seed, *wlName, *batch, *of, *from, *outDir))
	}
	if *replay != "" {
		os.Exit(runReplay(p, *replay))
	}
	if *oneCase >= 0 {
		os.Exit(runSingle(p, *tier, seed, *wlName, *oneCase))
	}
	os.Exit(runParent(p, *tier, seed, *only))
}

func findWorkload(p Prop, tier, name string) (Workload, bool) {
	for _, w := range p.Plan(tier) {
		if w.Name == name {
			return w, true
		}
	}
	return Workload{}, false
}

func scratchBase() string {
	b := envOr("VERIF_TMP", "/tmp/verif-scratch")
	os.MkdirAll(b, 0o755)
	return b
}

func runSingle(p Prop, tier string, seed int64, wlName string, idx int) int {
	wl, ok := findWorkload(p, tier, wlName)
	if !ok {
		fmt.Fprintf(os.Stderr, "unknown workload %q\n", wlName)
		return 2
	}
	tmp, _ := os.MkdirTemp(scratchBase(), "single-")
	defer os.RemoveAll(tmp)
	rec := NewRec()
	c := &Case{Prop: p.ID(), Workload: wl.Name, Index: idx, Tier: tier, Seed: seed, Verbose: true, TmpDir: tmp, rec: rec,
		Rng: rand.New(rand.NewSource(SubSeed(seed, p.ID(), wl.Name, idx)))}
	fmt.Printf("replaying %s workload=%s case=%d tier=%s seed=%d\n", p.ID(), wl.Name, idx, tier, seed)
	hung := runCaseGuarded(p, c, wl)
	b, _ := json.MarshalIndent(rec.Counters, "", " ")
	fmt.Printf("counters: %s\n", b)
	for _, in := range rec.Inconcl {
		fmt.Printf("inconclusive: %s\n", in)
	}
	if hung {
		fmt.Println("case hung")
	}
	if len(rec.Violations) > 0 {
		for _, v := range rec.Violations {
			fmt.Printf("violation reproduced: key=%s %s\n", v.Key, v.What)
		}
		return 1
	}
	fmt.Println("no violation in this case")
	return 0
}

func runReplay(p Prop, path string) int {
	b, err := os.ReadFile(path)
	if err != nil {
		fmt.Fprintln(os.Stderr, err)
		return 2
	}
	var r struct {
		Property string `json:"property"`
		Tier     string `json:"tier"`
		Seed     int64  `json:"seed"`
		Workload string `json:"workload"`
		Case     int    `json:"case"`
	}
	if err := json.Unmarshal(b, &r); err != nil {
		fmt.Fprintln(os.Stderr, err)
		return 2
	}
	if r.Case < 0 {
		fmt.Println("this witness is not tied to a single case (process-level event); see the file for the captured output")
		return 2
	}
	return runSingle(p, r.Tier, r.Seed, r.Workload, r.Case)
}

// ---------------------------------------------------------------- worker

func runWorker(p Prop, tier string, seed int64, wlName string, batch, of, from int, outDir string) int {
	wl, ok := findWorkload(p, tier, wlName)
	if !ok {
		fmt.Fprintf(os.Stderr, "unknown workload %q\n", wlName)
		return 3
	}
	if wl.MemLimitMB > 0 {
		debug.SetMemoryLimit(int64(wl.MemLimitMB) << 20)
	}
	tmp, _ := os.MkdirTemp(scratchBase(), fmt.Sprintf("%s-%s-%d-", p.ID(), wlName, batch))
	defer os.RemoveAll(tmp)
	rec := NewRec()
	logf, _ := os.OpenFile(filepath.Join(outDir, fmt.Sprintf("batch-%s-%d.log", wlName, batch)), os.O_CREATE|os.O_WRONLY|os.O_APPEND, 0o644)
	defer logf.Close()
	code := 0
	for i := from; i < wl.Cases; i++ {
		if i%of != batch {
			continue
		}
		fmt.Fprintf(logf, "case %d\n", i) // before executing: attribution of a dying process
		caseTmp := filepath.Join(tmp, fmt.Sprintf("c%d", i))
		os.MkdirAll(caseTmp, 0o755)
		c := &Case{Prop: p.ID(), Workload: wl.Name, Index: i, Tier: tier, Seed: seed, TmpDir: caseTmp, rec: rec,
			Rng: rand.New(rand.NewSource(SubSeed(seed, p.ID(), wl.Name, i)))}
		hung := runCaseGuarded(p, c, wl)
		rec.Done = i
		if hung {
			code = 4 // parent restarts after this case
			break
		}
		os.RemoveAll(caseTmp)
	}
	if err := writeRec(rec, outDir, wlName, batch, from); err != nil {
		fmt.Fprintln(os.Stderr, "write result:", err)
		return 3
	}
	if code == 4 {
		// leaked goroutine may hold anything; leave immediately
		os.RemoveAll(tmp)
		os.Exit(4)
	}
	return code
}

func writeRec(rec *Rec, outDir, wl string, batch, from int) error {
	rec.mu.Lock()
	defer rec.mu.Unlock()
	for w, m := range rec.ntWl {
		rec.NTPerWl[w] = int64(len(m))
	}
	b, err := json.Marshal(rec)
	if err != nil {
		// a detail that cannot be marshalled must not lose the violation
		for i := range rec.Violations {
			rec.Violations[i].Detail = fmt.Sprintf("%v", rec.Violations[i].Detail)
		}
		rec.Samples = nil
		b, err = json.Marshal(rec)
		if err != nil {
			return err
		}
	}
	base := filepath.Join(outDir, fmt.Sprintf("res-%s-%d-%d", wl, batch, from))
	nt := make([]byte, 0, 8*len(rec.nt))
	var x [8]byte
	for h := range rec.nt {
		binary.LittleEndian.PutUint64(x[:], h)
		nt = append(nt, x[:]...)
	}
	if err := os.WriteFile(base+".nt", nt, 0o644); err != nil {
		return err
	}
	if err := os.WriteFile(base+".tmp", b, 0o644); err != nil {
		return err
	}
	return os.Rename(base+".tmp", base+".json")
}

// ---------------------------------------------------------------- parent

type knownFinding struct {
	Property string `json:"property"`
	Key      string `json:"key"`
	Status   string `json:"status"`
	Commit   string `json:"commit,omitempty"`
	What     string `json:"what"`
}

func loadKnown(prop string) []knownFinding {
	b, err := os.ReadFile(filepath.Join(verifDir, "known_findings.json"))
	if err != nil {
		return nil
	}
	var f struct {
		Findings []knownFinding `json:"findings"`
	}
	if json.Unmarshal(b, &f) != nil {
		return nil
	}
	var out []knownFinding
	for _, k := range f.Findings {
		if k.Property == prop && k.Status == "known" {
			out = append(out, k)
		}
	}
	return out
}

type merged struct {
	rec        *Rec
	nt         map[uint64]struct{}
	ntPerWl    map[string]int64
	broken     []string
	raceBlocks int
}

func runParent(p Prop, tier string, seed int64, only string) int {
	start := time.Now()
	plan := p.Plan(tier)
	if only != "" {
		keep := map[string]bool{}
		for _, s := range strings.Split(only, ",") {
			keep[s] = true
		}
		var np []Workload
		for _, w := range plan {
			if keep[w.Name] {
				np = append(np, w)
			}
		}
		plan = np
	}
	self, _ := os.Executable()
	runDir, _ := os.MkdirTemp(scratchBase(), "run-"+p.ID()+"-")
	defer os.RemoveAll(runDir)
	os.Setenv("VERIF_TMP", runDir)

	m := &merged{rec: NewRec(), nt: map[uint64]struct{}{}, ntPerWl: map[string]int64{}}
	var mu sync.Mutex
	sem := make(chan struct{}, maxProcs())
	var wg sync.WaitGroup
	for _, wl := range plan {
		nb := wl.Batches
		if nb <= 0 {
			nb = maxProcs()
		}
		if nb > wl.Cases {
			nb = wl.Cases
		}
		if nb < 1 {
			continue
		}
		bin := self
		if wl.Race {
			bin = self + "-race"
			if _, err := os.Stat(bin); err != nil {
				m.broken = append(m.broken, "race binary missing: "+bin)
				continue
			}
		}
		for b := 0; b < nb; b++ {
			wg.Add(1)
			go func(wl Workload, b, nb int, bin string) {
				defer wg.Done()
				sem <- struct{}{}
				defer func() { <-sem }()
				runBatch(p, wl, tier, seed, b, nb, bin, runDir, m, &mu)
			}(wl, b, nb, bin)
		}
	}
	wg.Wait()

	// collect race reports
	collectRaces(p, runDir, m)

	return finish(p, plan, tier, seed, m, time.Since(start), only != "")
}

func maxProcs() int {
	n := runtime.NumCPU()
	if s := os.Getenv("VERIF_PROCS"); s != "" {
		if v, err := strconv.Atoi(s); err == nil && v > 0 {
			n = v
		}
	}
	if n > 16 {
		n = 16
	}
	return n
}

func runBatch(p Prop, wl Workload, tier string, seed int64, b, nb int, bin, runDir string, m *merged, mu *sync.Mutex) {
	from := 0
	restarts := 0
	for {
		to := wl.BatchTimeout
		if to <= 0 {
			to = 45 * time.Minute
		}
		ctx, cancel := context.WithTimeout(context.Background(), to)
		outPath := filepath.Join(runDir, fmt.Sprintf("out-%s-%d-%d.txt", wl.Name, b, from))
		outF, _ := os.Create(outPath)
		cmd := exec.CommandContext(ctx, bin, "-worker", "-w", wl.Name, "-batch", strconv.Itoa(b), "-of", strconv.Itoa(nb),
			"-from", strconv.Itoa(from), "-out", runDir, "-tier", tier)
		cmd.Env = append(os.Environ(), "VERIF_SEED="+strconv.FormatInt(seed, 10), "VERIF_TMP="+runDir,
			"GORACE=halt_on_error=0 exitcode=0 log_path="+filepath.Join(runDir, fmt.Sprintf("race-%s-%d", wl.Name, b)),
			"GOTRACEBACK=all")
		cmd.Stdout = outF
		cmd.Stderr = outF
		cmd.Cancel = func() error { return cmd.Process.Signal(syscall.SIGQUIT) }
		cmd.WaitDelay = 10 * time.Second
		err := cmd.Run()
		timedOut := ctx.Err() != nil
		cancel()
		outF.Close()
		resBase := filepath.Join(runDir, fmt.Sprintf("res-%s-%d-%d", wl.Name, b, from))
		rec, nts, rerr := readRec(resBase)
		mu.Lock()
		if rerr == nil {
			mergeRec(m, rec, nts)
		}
		mu.Unlock()
		exit := 0
		if err != nil {
			if ee, ok := err.(*exec.ExitError); ok {
				exit = ee.ExitCode()
			} else {
				exit = -1
			}
		}
		if rerr == nil && exit == 0 {
			return
		}
		if rerr == nil && exit == 4 {
			// case watchdog: restart after the hung case
			from = rec.Done + 1
			restarts++
			if restarts > 40 {
				mu.Lock()
				m.broken = append(m.broken, fmt.Sprintf("%s batch %d: too many restarts", wl.Name, b))
				mu.Unlock()
				return
			}
			continue
		}
		// the child died without a result: attribute to the last logged case
		last := lastLoggedCase(filepath.Join(runDir, fmt.Sprintf("batch-%s-%d.log", wl.Name, b)))
		outB, _ := os.ReadFile(outPath)
		out := string(outB)
		mu.Lock()
		if timedOut {
			m.broken = append(m.broken, fmt.Sprintf("%s batch %d: batch watchdog (%s) fired at case %d (inconclusive)\n%s", wl.Name, b, to, last, tail(out, 3000)))
			mu.Unlock()
			return
		}
		sig, inRepo := deathSignature(out)
		if inRepo {
			m.rec.Violations = append(m.rec.Violations, Violation{Key: "death:" + sig, What: "worker process died in repository code",
				Workload: wl.Name, Case: last, Detail: map[string]any{"output": tail(out, 8000)}})
		} else {
			m.broken = append(m.broken, fmt.Sprintf("%s batch %d died (exit %d) at case %d outside repository code: %s\n%s", wl.Name, b, exit, last, sig, tail(out, 3000)))
		}
		mu.Unlock()
		if last < 0 {
			return
		}
		from = last + 1
		restarts++
		if restarts > 40 {
			mu.Lock()
			m.broken = append(m.broken, fmt.Sprintf("%s batch %d: too many restarts", wl.Name, b))
			mu.Unlock()
			return
		}
	}
}

func tail(s string, n int) string {
	if len(s) > n {
		return "…" + s[len(s)-n:]
	}
	return s
}

func head(s string, n int) string {
	if len(s) > n {
		return s[:n] + "…"
	}
	return s
}

func lastLoggedCase(path string) int {
	f, err := os.Open(path)
	if err != nil {
		return -1
	}
	defer f.Close()
	last := -1
	sc := bufio.NewScanner(f)
	for sc.Scan() {
		var i int
		if _, err := fmt.Sscanf(sc.Text(), "case %d", &i); err == nil {
			last = i
		}
	}
	return last
}

var fatalRe = regexp.MustCompile(`(?m)^(fatal error: .*|panic: .*|SIGSEGV.*|unexpected fault address.*)$`)

func deathSignature(out string) (string, bool) {
	loc := fatalRe.FindStringIndex(out)
	if loc == nil {
		return "no-fatal-line", false
	}
	msg := normaliseMsg(out[loc[0]:loc[1]])
	rest := out[loc[1]:]
	// first goroutine block after the message
	blk := rest
	if i := strings.Index(rest, "\n\ngoroutine "); i >= 0 {
		blk = rest[i+2:]
		if j := strings.Index(blk, "\n\n"); j >= 0 {
			blk = blk[:j]
		}
	}
	frame := InnermostFrame(blk)
	repo := FirstRepoFrame(blk)
	inRepo := strings.HasPrefix(frame, "github.com/anyproto/any-sync/")
	if !inRepo && repo != "" && !strings.HasPrefix(frame, "verifharness/") {
		// died inside a dependency called from the repository
		inRepo = true
		frame = repo
	}
	return head(msg, 80) + "@" + frame, inRepo
}

func readRec(base string) (*Rec, []uint64, error) {
	b, err := os.ReadFile(base + ".json")
	if err != nil {
		return nil, nil, err
	}
	rec := NewRec()
	if err := json.Unmarshal(b, rec); err != nil {
		return nil, nil, err
	}
	nb, _ := os.ReadFile(base + ".nt")
	nts := make([]uint64, 0, len(nb)/8)
	for i := 0; i+8 <= len(nb); i += 8 {
		nts = append(nts, binary.LittleEndian.Uint64(nb[i:]))
	}
	return rec, nts, nil
}

func mergeRec(m *merged, r *Rec, nts []uint64) {
	m.rec.Evaluations += r.Evaluations
	for k, v := range r.Counters {
		m.rec.Counters[k] += v
	}
	for k, v := range r.PerWorkload {
		m.rec.PerWorkload[k] += v
	}
	for k, v := range r.NTPerWl {
		m.ntPerWl[k] += v // upper bound; distinct across batches is in nt
	}
	if len(m.rec.Samples) < 12 {
		m.rec.Samples = append(m.rec.Samples, r.Samples...)
	}
	m.rec.Violations = append(m.rec.Violations, r.Violations...)
	m.rec.Inconcl = append(m.rec.Inconcl, r.Inconcl...)
	for _, h := range nts {
		m.nt[h] = struct{}{}
	}
}

var raceSplit = regexp.MustCompile(`(?m)^==================$`)

func collectRaces(p Prop, runDir string, m *merged) {
	files, _ := filepath.Glob(filepath.Join(runDir, "race-*"))
	seen := map[string]bool{}
	for _, f := range files {
		b, err := os.ReadFile(f)
		if err != nil {
			continue
		}
		for _, blk := range raceSplit.Split(string(b), -1) {
			if !strings.Contains(blk, "WARNING: DATA RACE") {
				continue
			}
			m.raceBlocks++
			key := raceKey(blk)
			if seen[key] {
				continue
			}
			seen[key] = true
			wl := "race"
			base := filepath.Base(f)
			if parts := strings.Split(base, "-"); len(parts) >= 2 {
				wl = parts[1]
			}
			if !strings.Contains(key, "any-sync/") {
				m.broken = append(m.broken, "data race outside repository code (harness bug): "+key+"\n"+head(blk, 3000))
				continue
			}
			m.rec.Violations = append(m.rec.Violations, Violation{Key: key, What: "data race reported by the race detector", Workload: wl, Case: -1,
				Detail: map[string]any{"report": head(blk, 8000)}})
		}
	}
}

// raceKey: first repo (or first non-runtime) frame of each of the two stacks.
func raceKey(blk string) string {
	var frames []string
	sections := regexp.MustCompile(`(?m)^(Write|Read|Previous write|Previous read|Atomic|Previous atomic).* at 0x`).FindAllStringIndex(blk, -1)
	for i, loc := range sections {
		end := len(blk)
		if i+1 < len(sections) {
			end = sections[i+1][0]
		}
		sec := blk[loc[0]:end]
		if j := strings.Index(sec, "\n\n"); j >= 0 {
			sec = sec[:j]
		}
		fr := ""
		first := ""
		for _, ln := range strings.Split(sec, "\n")[1:] {
			t := strings.TrimSpace(ln)
			if t == "" || strings.HasPrefix(t, "/") {
				continue
			}
			if i := strings.LastIndex(t, "("); i > 0 {
				t = t[:i]
			}
			if strings.HasPrefix(t, "runtime.") || strings.HasPrefix(t, "sync.") || strings.HasPrefix(t, "sync/") {
				continue
			}
			if first == "" {
				first = t
			}
			if strings.HasPrefix(t, "github.com/anyproto/any-sync/") {
				fr = t
				break
			}
		}
		if fr == "" {
			fr = first
		}
		frames = append(frames, fr)
	}
	sort.Strings(frames)
	return "race:" + strings.Join(frames, "|")
}

func finish(p Prop, plan []Workload, tier string, seed int64, m *merged, wall time.Duration, partial bool) int {
	known := loadKnown(p.ID())
	isKnown := func(key string) *knownFinding {
		for i := range known {
			k := &known[i]
			if k.Key == key || globMatch(k.Key, key) {
				return k
			}
		}
		return nil
	}
	os.MkdirAll(filepath.Join(outBase(), "replay"), 0o755)
	os.MkdirAll(filepath.Join(outBase(), "evidence"), 0o755)
	knownSeen := map[string]int{}
	newByKey := map[string][]Violation{}
	for _, v := range m.rec.Violations {
		if k := isKnown(v.Key); k != nil {
			knownSeen[k.Key]++
			continue
		}
		newByKey[v.Key] = append(newByKey[v.Key], v)
	}
	exit := 0
	for _, k := range known {
		if knownSeen[k.Key] > 0 {
			fmt.Printf("KNOWN-FINDING: property=%s %s [key=%s, reproduced %d times]\n", p.ID(), k.What, k.Key, knownSeen[k.Key])
		}
	}
	keys := sortedKeys(newByKey)
	for _, key := range keys {
		vs := newByKey[key]
		sort.Slice(vs, func(i, j int) bool { return vs[i].Case < vs[j].Case })
		v := vs[0]
		name := fmt.Sprintf("%s-%s-%s-%d.json", p.ID(), tier, sanitize(key), v.Case)
		path := filepath.Join(outBase(), "replay", name)
		wit := map[string]any{"property": p.ID(), "tier": tier, "seed": seed, "workload": v.Workload, "case": v.Case, "key": v.Key,
			"what": v.What, "detail": v.Detail, "occurrences": len(vs),
			"replay_cmd": fmt.Sprintf("bin/check %s --replay %s", p.ID(), path)}
		b, _ := json.MarshalIndent(wit, "", " ")
		os.WriteFile(path, b, 0o644)
		fmt.Printf("VIOLATION property=%s replay=%s\n", p.ID(), path)
		fmt.Printf("  key=%s (%d occurrence(s)): %s\n", v.Key, len(vs), v.What)
		exit = 1
	}
	// minimum non-trivial observation per workload
	ntTotal := int64(len(m.nt))
	var notes []string
	for _, wl := range plan {
		if wl.MinNontrivial > 0 && m.ntPerWl[wl.Name] < int64(wl.MinNontrivial) {
			m.broken = append(m.broken, fmt.Sprintf("workload %s observed only %d non-trivial cases (< %d): the monitor saw too little to decide",
				wl.Name, m.ntPerWl[wl.Name], wl.MinNontrivial))
		}
	}
	inconclTolerance := int(m.rec.Evaluations / 200) // 0.5 %
	harnessPanics := 0
	for _, s := range m.rec.Inconcl {
		if strings.HasPrefix(s, "HARNESS-PANIC") {
			harnessPanics++
		}
	}
	if harnessPanics > 0 {
		m.broken = append(m.broken, fmt.Sprintf("%d harness panics, first: %s", harnessPanics, firstWith(m.rec.Inconcl, "HARNESS-PANIC")))
	} else if len(m.rec.Inconcl) > inconclTolerance {
		m.broken = append(m.broken, fmt.Sprintf("%d inconclusive cases (tolerance %d), first: %s", len(m.rec.Inconcl), inconclTolerance, head(m.rec.Inconcl[0], 1500)))
	}
	exhaustive := len(plan) > 0
	wlInfo := map[string]any{}
	for _, wl := range plan {
		if !wl.Exhaustive {
			exhaustive = false
		}
		wlInfo[wl.Name] = map[string]any{"cases_planned": wl.Cases, "evaluations": m.rec.PerWorkload[wl.Name],
			"nontrivial_upper": m.ntPerWl[wl.Name], "race_build": wl.Race, "exhaustive": wl.Exhaustive}
	}
	var knownList []string
	var knownNot []string
	for _, k := range known {
		if knownSeen[k.Key] > 0 {
			knownList = append(knownList, k.Key)
		} else {
			knownNot = append(knownNot, k.Key)
		}
	}
	if partial {
		notes = append(notes, "partial run (-only): not a registered check invocation")
	}
	samples := m.rec.Samples
	if len(samples) > 12 {
		samples = samples[:12]
	}
	if len(samples) == 0 {
		// a run that recorded no case-level sample still says what it executed
		samples = []any{map[string]any{"note": "no case-level samples were recorded by this run", "workloads": wlInfo}}
	}
	ev := map[string]any{
		"property_id": p.ID(), "tier": tier, "seed": seed, "level": p.Level(),
		"coverage": map[string]any{
			"evaluations": m.rec.Evaluations, "distinct_nontrivial": ntTotal, "rule": p.Rule(), "samples": samples,
			"exhaustive": exhaustive, "counters": m.rec.Counters, "workloads": wlInfo,
			"race_reports": m.raceBlocks, "inconclusive_cases": len(m.rec.Inconcl),
			"known_findings_reproduced": knownList, "known_not_reproduced": knownNot, "notes": notes,
		},
		"assumptions": p.Assumptions(), "wall_s": wall.Seconds(), "violations": len(keys),
	}
	b, _ := json.MarshalIndent(ev, "", " ")
	if !partial || os.Getenv("VERIF_WRITE_PARTIAL") != "" {
		os.WriteFile(filepath.Join(outBase(), "evidence", p.ID()+".json"), b, 0o644)
	}
	fmt.Printf("%s %s seed=%d: %d evaluations, %d distinct non-trivial, %d new violation key(s), %d known finding(s) reproduced, %d inconclusive, %.1fs\n",
		p.ID(), tier, seed, m.rec.Evaluations, ntTotal, len(keys), len(knownList), len(m.rec.Inconcl), wall.Seconds())
	for _, k := range sortedKeys(m.rec.Counters) {
		fmt.Printf("  %-48s %d\n", k, m.rec.Counters[k])
	}
	if exit == 0 && len(m.broken) > 0 {
		for _, s := range m.broken {
			fmt.Printf("BROKEN/INCONCLUSIVE: %s\n", s)
		}
		return 2
	}
	for _, s := range m.broken {
		fmt.Printf("note (also inconclusive): %s\n", head(s, 400))
	}
	return exit
}

func firstWith(ss []string, pre string) string {
	for _, s := range ss {
		if strings.HasPrefix(s, pre) {
			return head(s, 2500)
		}
	}
	return ""
}

func sanitize(s string) string {
	var sb strings.Builder
	for _, r := range s {
		switch {
		case r >= 'a' && r <= 'z', r >= 'A' && r <= 'Z', r >= '0' && r <= '9', r == '-', r == '_', r == '.':
			sb.WriteRune(r)
		default:
			sb.WriteByte('_')
		}
	}
	out := sb.String()
	if len(out) > 90 {
		out = out[:90]
	}
	return out
}

// globMatch matches key against a pattern in which '*' stands for any (possibly empty) substring.
func globMatch(pattern, key string) bool {
	if !strings.Contains(pattern, "*") {
		return pattern == key
	}
	parts := strings.Split(pattern, "*")
	if !strings.HasPrefix(key, parts[0]) {
		return false
	}
	key = key[len(parts[0]):]
	for i := 1; i < len(parts); i++ {
		p := parts[i]
		if i == len(parts)-1 {
			return strings.HasSuffix(key, p)
		}
		j := strings.Index(key, p)
		if j < 0 {
			return false
		}
		key = key[j+len(p):]
	}
	return true
}
