#!/bin/bash
# usage: bin/tryseed.sh <Cnn> <n> "<demo go test args>" [check ids...]  -- confirms a seeded break and runs checks against it
ID=$1; N=$2; DEMO=$3; shift 3; CHECKS="$@"; [ -z "$CHECKS" ] && CHECKS=$ID
WT=/tmp/seed-$ID-$N; OUT=/tmp/seed-$ID-$N-out
cd $WT || exit 2
echo "== demo with change:"; go test -mod=mod -vet=off -count=1 $DEMO 2>&1 | grep -v "^20[0-9][0-9]-" | tail -4
git apply -R $OUT/patch.diff || { echo "cannot reverse patch"; exit 2; }
echo "== demo without change:"; go test -mod=mod -vet=off -count=1 $DEMO 2>&1 | grep -v "^20[0-9][0-9]-" | tail -2
git apply $OUT/patch.diff
cd /verif
for c in $CHECKS; do
  s=$(date +%s); VERIF_REPO=$WT bin/check $c quick > /tmp/tryseed-$ID-$N-$c.log 2>&1; rc=$?; e=$(date +%s)
  echo "== check $c: rc=$rc wall=$((e-s))s"; grep -A1 "^VIOLATION" /tmp/tryseed-$ID-$N-$c.log | grep "key=" | cut -c1-220 | head -8; grep "^BROKEN" /tmp/tryseed-$ID-$N-$c.log | cut -c1-300 | head -3
done
