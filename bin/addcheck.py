#!/usr/bin/env python3
"""usage: addcheck.py <json-file-with-one-or-more-check-entries>; merges into bin/checks.json and regenerates MANIFEST.json"""
import json, sys, subprocess, os
here=os.path.dirname(os.path.dirname(os.path.abspath(__file__)))
p=os.path.join(here,'bin','checks.json'); d=json.load(open(p))
new=json.load(open(sys.argv[1]))
if isinstance(new,dict): new=[new]
by={c['property_id']:c for c in d['checks']}
for n in new: by[n['property_id']]=n
d['checks']=[by[k] for k in sorted(by)]
harness=[e for e in d['engines'] if e['name']=='harness'][0]
harness['serves_properties']=sorted(by)
json.dump(d,open(p,'w'),indent=1)
subprocess.check_call([sys.executable, os.path.join(here,'bin','genmanifest.py')])
