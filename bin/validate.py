#!/usr/bin/env python3-vt
import json, jsonschema, glob, sys
m=json.load(open('/verif/MANIFEST.json')); jsonschema.validate(m,json.load(open('/root/.vp/MANIFEST.schema.json')))
s=json.load(open('/root/.vp/EVIDENCE.schema.json'))
for f in sorted(glob.glob('/verif/evidence/*.json')):
    jsonschema.validate(json.load(open(f)),s)
print("manifest + %d evidence files valid"%len(glob.glob('/verif/evidence/*.json')))
