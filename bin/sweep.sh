#!/bin/bash
# usage: bin/sweep.sh <tier> <outfile> [ids...]   -- runs checks sequentially, records exit code and wall time
cd "$(dirname "$0")/.."
TIER=${1:-quick}; OUT=${2:-/tmp/sweep.txt}; shift 2
IDS="$@"; [ -z "$IDS" ] && IDS=$(python3 -c "import json;print(' '.join(c['property_id'] for c in json.load(open('MANIFEST.json'))['checks']))")
: > "$OUT"
for id in $IDS; do
  s=$(date +%s)
  bin/check $id $TIER > /tmp/sweep-$id.log 2>&1; rc=$?
  e=$(date +%s)
  echo "$id rc=$rc wall=$((e-s))s $(grep -c '^VIOLATION' /tmp/sweep-$id.log) violations $(grep -c '^KNOWN-FINDING' /tmp/sweep-$id.log) known | $(grep "^$id $TIER" /tmp/sweep-$id.log | cut -c1-160)" >> "$OUT"
done
echo SWEEP-DONE >> "$OUT"
