# sourced by every script: offline Go environment that works in this sandbox
export GOFLAGS=-mod=mod GOPROXY=off GOSUMDB=off GOTOOLCHAIN=local GONOSUMDB='*' GONOSUMCHECK=1 GOFLAGS=-mod=mod
GO_TC=/root/go/pkg/mod/golang.org/toolchain@v0.0.1-go1.25.7.linux-amd64/bin/go
if [ -x "$GO_TC" ]; then G="$GO_TC"; else G=go; export GOTOOLCHAIN=auto; unset GOSUMDB; fi
export G
