#!/usr/bin/env python3
"""Regenerates /verif/MANIFEST.json from bin/checks.json (one entry per claimed property)."""
import json, os, subprocess
here = os.path.dirname(os.path.dirname(os.path.abspath(__file__)))
spec = json.load(open(os.path.join(here, "bin", "checks.json")))
props = [json.loads(l)["id"] for l in open(os.path.join(here, "properties.jsonl")) if l.strip()]
checks = []
claimed = set()
for c in spec["checks"]:
    pid = c["property_id"]
    claimed.add(pid)
    checks.append({
        "property_id": pid,
        "quick_cmd": f"bin/check {pid} quick",
        "thorough_cmd": f"bin/check {pid} thorough",
        "evidence_file": f"evidence/{pid}.json",
        "replay_cmd_template": f"bin/check {pid} --replay {{path}}",
        "engine": c.get("engine", "harness"),
        "level_claimed": {"category": c["level"], "text": c["text"], "design_ref": c.get("design_ref", f"DESIGN.md section 3 ({pid})")},
        "level_note": c["note"],
        "technique": c["technique"],
    })
na = [x for x in spec.get("not_applicable", [])]
for p in props:
    if p not in claimed and p not in {x["property_id"] for x in na}:
        na.append({"property_id": p, "reason": "check not yet built in this revision of /verif (work in progress; see DESIGN.md section 3 for the planned monitor)"})
try:
    hooks = subprocess.check_output(["git", "-C", "/repo", "log", "--format=%H %s", "--grep=^verif hook"], text=True).split("\n")
    hook_commits = [h.split()[0] for h in hooks if h.strip()]
except Exception:
    hook_commits = []
m = {
    "version": 1,
    "setup_cmd": "bin/setup",
    "hooks": {
        "guard": "verif",
        "enable": "go build -tags verif (harness module /verif/harness with `replace github.com/anyproto/any-sync => /repo`); hook files are */verif_hooks.go with `//go:build verif`",
        "baseline_off_cmd": "cd /repo && go test -mod=mod -vet=off -count=1 -timeout 25m ./...",
        "source_commits": hook_commits,
        "add_only": True,
    },
    "engines": spec.get("engines", []),
    "checks": checks,
    "notes": spec.get("notes", ""),
    "not_applicable": na,
}
json.dump(m, open(os.path.join(here, "MANIFEST.json"), "w"), indent=1)
print("wrote MANIFEST.json with", len(checks), "checks,", len(na), "not_applicable")
